"""Library-level (L1) properties: case generators, ownership of a model/implementation
divergence (projection obs_P), and direct oracles evaluated on the implementation's trace."""
import re
import random
from .gen import HistGen, chain_prefix, payload, pick
from .l1 import Case, same_line
from .trace import Op, Dump, resp_kind, added_id, added_urgency, found_version

PARENT_CLASSES = ["nil", "latest:{c}", "anc:{c}:1", "anc:{c}:2", "anc:{c}:4", "base:{c}", "fresh",
                  "latest:{o}", "ver:{o}:0", "client:{c}", "$odd0", "$odd2"]


def fixture_info():
    """clean data directories written by the pinned release (fixtures/c19), usable as the starting state of
    a case (`fixture NAME`): name -> {symbolic client: (number of accepted versions, has a snapshot)}"""
    import os
    from .common import VERIF
    root = os.path.join(VERIF, "fixtures", "c19")
    out = {}
    for name in sorted(os.listdir(root)) if os.path.isdir(root) else []:
        if name.startswith("wal") or name == "huge" or not os.path.isdir(os.path.join(root, name, "data")):
            continue
        ids, clients, nacc = [], {}, {}
        for l in open(os.path.join(root, name, "ids.txt")):
            t = l.split()
            if t and t[0] == "id": ids.append(t[1])
            if t and t[0] == "client": clients[int(t[1])] = t[2]
            if t and t[0] == "accepted": nacc[int(t[1])] = nacc.get(int(t[1]), 0) + 1
        snaps = {}
        lines = open(os.path.join(root, name, "expected.trace")).read().split("\n")
        for i, l in enumerate(lines):
            if l.startswith("OP dump ") and i + 1 < len(lines) and lines[i + 1].startswith("R "):
                d = Dump(lines[i + 1][2:])
                snaps[l.split()[2]] = bool(d.ok and d.snap)
        info = {}
        for k, u in clients.items():
            canon = str(ids.index(u) + 1) if u in ids else None
            if nacc.get(k, 0) >= 1:
                info[k] = (nacc[k], snaps.get(canon, False))
        if info:
            out[name] = info
    return out


def fixture_snaps():
    """name -> {canonical client number: (snapshot version, timestamp, versions since) or None} as the PINNED release
    itself reported its stored records when the fixture was written (expected.trace)"""
    import os
    from .common import VERIF
    root = os.path.join(VERIF, "fixtures", "c19")
    out = {}
    for name in fixture_info():
        snaps = {}
        lines = open(os.path.join(root, name, "expected.trace")).read().split("\n")
        for i, l in enumerate(lines):
            if l.startswith("OP dump ") and i + 1 < len(lines) and lines[i + 1].startswith("R "):
                d = Dump(lines[i + 1][2:])
                if d.ok and not d.absent:
                    snaps[l.split()[2]] = d.snap
        out[name] = snaps
    return out


def fixture_cases(prefix, rng, n, tail):
    """n cases that start from a copy of a pinned-release data directory; tail(name, client, nacc, has_snapshot, other) -> ops"""
    fx = fixture_info()
    out = []
    names = sorted(fx)
    for k in range(n if names else 0):
        name = names[k % len(names)]
        cl = sorted(fx[name])
        c = cl[(k // len(names)) % len(cl)]
        o = cl[(cl.index(c) + 1) % len(cl)]
        nacc, snap = fx[name][c]
        out.append(Case(f"{prefix}-fixture-{k}", [f"fixture {name}"] + tail(name, c, nacc, snap, o), {"only": "sqlite", "fixture": name}))
    return out


def sizes(tier, quick, thorough):
    return thorough if tier == "thorough" else quick


def rand_prefix(rng, nops, nclients=3, adversarial=False, reopen=True, harness_steps=True, obs=None):
    g = HistGen(rng, nclients, adversarial, reopen, harness_steps)
    ops = []
    for _ in range(nops):
        step = g.op()
        ops += step
        if obs:
            ops += obs(g, step)
    return ops, g


class Accepted:
    """what the implementation itself reported as accepted, per client, in order"""
    def __init__(self, trace):
        self.by_client = {}
        for (o, ri, rm) in trace:
            op = Op(o)
            if op.kind == "av" and resp_kind(ri) == "added":
                self.by_client.setdefault(op.c, []).append((added_id(ri), op.p, op.data))


class L1Prop:
    id = "C00"
    backends = ("inmem", "sqlite")
    rule = ""
    def cases(self, rng, tier): return []
    def relevant(self, i, trace): return True
    def oracle(self, case, trace, backend): return []
    def nontrivial(self, case, trace): return True


# ------------------------------------------------------------------ C01
class C01(L1Prop):
    id = "C01"
    overlap = True
    rule = ("random multi-client histories (adversarial id classes, reopen points) with an end-to-end walk of "
            "every client's chain through get_child_version at the end and at interior points; non-trivial = "
            ">=3 accepted versions and >=1 rejected/declined request; distinct by hash of the concrete op lines")
    def cases(self, rng, tier):
        n, length = sizes(tier, (360, 40), (1500, 160))
        out = []
        for k in range(n):
            adv = k % 3 == 0
            nc = rng.choice([1, 2, 3, 4])
            def obs(g, step):
                if rng.random() < 0.07:
                    return [f"walk {c}" for c in sorted(g.created)]
                return []
            ops, g = rand_prefix(rng, rng.randint(8, length), nc, adv, True, False, obs)
            ops += [f"walk {c}" for c in range(1, nc + 1)]
            out.append(Case(f"c01-{k}", ops))
        # histories in which storage calls fail now and then (the failed request is retried): what was
        # never accepted must not become part of the chain, what was accepted must stay walkable
        for k in range(sizes(tier, 40, 200)):
            ops = ["ensure 1"]
            for i in range(rng.randint(4, 12)):
                par = ("nil" if k % 2 else "fresh") if i == 0 else "latest:1"
                if rng.random() < 0.5:
                    # never "after" on the commit itself (call 3): that is the acknowledgement-lost outcome of C05
                    ops += [f"fault {rng.choice(['1:before', '1:after', '2:before', '2:after', '3:before'])}", f"av 1 {par} b:9,{i}"]
                ops += [f"av 1 {par} b:1,{i}"]
                if rng.random() < 0.3:
                    ops += [f"fault {rng.randint(1, 6)}:before", "as 1 latest:1 b:5", "as 1 latest:1 b:6"]
            ops += ["walk 1", "reopen", "walk 1"]
            out.append(Case(f"c01-fault-{k}", ops, {"faults": True, "only": "sqlite"}))   # the in-memory test backend has no rollback
        # several server instances on one directory, used in turn; the chain is walked through each
        for k in range(sizes(tier, 16, 150)):
            nc = rng.choice([1, 2])
            ops = [f"ensure {c}" for c in range(1, nc + 1)]
            ni = rng.choice([2, 3])
            for step in range(rng.randint(5, 16)):
                if rng.random() < 0.6:
                    ops.append(f"inst {rng.randrange(ni)}")
                c = rng.randint(1, nc)
                r = rng.random()
                if r < 0.7:
                    ops.append(f"av {c} {rng.choice(['latest:%d' % c] * 6 + ['nil', 'anc:%d:1' % c])} b:{step}")
                elif r < 0.85:
                    ops.append(f"gcv {c} {rng.choice(['latest', 'anc'])}:{c}:1")
                else:
                    ops.append(f"as {c} latest:{c} b:9")
                if rng.random() < 0.35:
                    # written through one instance, extended through another, then the first one is
                    # asked for the child of what IT wrote last
                    a, b = rng.sample(range(ni), 2)
                    ops += [f"inst {a}", f"av {c} latest:{c} b:{step},1", f"inst {b}", f"av {c} latest:{c} b:{step},2",
                            f"inst {a}", f"gcv {c} anc:{c}:1"]
            for i in range(ni):
                ops += [f"inst {i}"] + [f"walk {c}" for c in range(1, nc + 1)]
            out.append(Case(f"c01-inst-{k}", ops, {"only": "sqlite"}))
        # the write lock is held by another connection for LONGER than the backend waits for it, while several
        # uploads for one client arrive: they may be refused (after waiting), never accepted twice on one parent
        for k in range(sizes(tier, 1, 4)):
            ops = ["raw", "ensure 1", "av 1 nil b:1", "av 1 latest:1 b:2", f"lockfor {5600 + 300 * k}", f"race 1 {2 + k % 2} 3"]
            out.append(Case(f"c01-lockrace-{k}", ops, {"only": "sqlite", "race": True, "raw": False}))
        # a server restricted to a list of clients and restarted (same list / longer list / no list) in the middle of
        # their histories: stale uploads after the restart are refused, the chains are walked end to end
        for k in range(sizes(tier, 6, 30)):
            al = ["1,2", "1", "2,1,3"][k % 3]
            ops = [f"allow {al}"]
            for c in (1, 2):
                ops += [f"http POST av hyph={'nil' if (k + c) % 2 else 'fresh'} hyph={c} history b:1,{c}"]
                ops += [f"http POST av hyph=latest:{c} hyph={c} history b:2,{i}" for i in range(1 + (k + c) % 3)]
            for step, nxt in enumerate(([al], [al, "1,2,3"], ["none", al])[k % 3]):
                ops += ([f"allow {nxt}"] if nxt != al else []) + ["reopen", "walk 1", f"http POST av hyph={['anc:1:1', 'nil', 'fresh'][(k + step) % 3]} hyph=1 history b:5,{step}",
                        "walk 1", "http POST av hyph=latest:1 hyph=1 history b:6", "walk 1", "walk 2"]
            out.append(Case(f"c01-allow-{k}", ops, {"http": True}, mode="http"))
        # a long-lived client: far more versions than any snapshot interval, walked end to end and asked about
        # old parents; and a client whose accumulated history is large (hundreds of megabytes in total)
        for k, n in enumerate([130, 260][:sizes(tier, 1, 2)]):
            ops = ["ensure 1"] + [f"av 1 {('nil' if k else 'fresh') if i == 0 else 'latest:1'} b:{i % 251},{k}" for i in range(n)]
            ops += ["walk 1", "gcv 1 base:1", "gcv 1 ver:1:0", f"gcv 1 ver:1:{n // 2}", f"gcv 1 ver:1:{n - 102}", f"gcv 1 ver:1:{n - 2}", "av 1 ver:1:3 b:9", "av 1 latest:1 b:9,9", "walk 1"]
            out.append(Case(f"c01-long-{k}", ops))
        for k in range(sizes(tier, 1, 2)):
            nb = [10485760, 31457280][k]
            cnt = 150994944 // nb + 1
            ops = ["ensure 1"] + [f"av 1 latest:1 z:{nb}:{i + 1}" for i in range(cnt)] + ["walk 1", "av 1 latest:1 b:1", "gcv 1 anc:1:1", "walk 1"]
            out.append(Case(f"c01-bulk-{k}", ops, {"bulk": True}))
        # the history does not start with this build: a data directory written by the pinned release
        def tail(name, c, nacc, snap, o):
            return [f"walk {c}", f"walk {o}", f"av {c} latest:{c} b:1,1", f"av {o} latest:{o} b:1,2", f"av {c} anc:{c}:1 b:1,3",
                    f"walk {c}", f"walk {o}", "reopen", f"av {c} latest:{c} b:1,4", f"walk {c}"]
        out += fixture_cases("c01", rng, sizes(tier, 7, 28), tail)
        return out
    def relevant(self, i, trace):
        o, ri, rm = trace[i]
        op = Op(o)
        if op.kind == "av":
            return resp_kind(ri) == "added" and resp_kind(rm) != "added"
        if op.kind == "gcv":
            a, b = found_version(ri), found_version(rm)
            if a and b:
                return a[:2] != b[:2]
            return resp_kind(ri) != resp_kind(rm)
        return False
    def oracle(self, case, trace, backend):
        fails = []
        acc = {}
        i = 0
        for (o, ri, rm) in trace:
            if o.startswith("race "):
                kv = dict(x.split("=", 1) for x in ri.split()[1:])
                if kv["parents_twice"] != "0":
                    fails.append(f"{kv['parents_twice']} parents were given two accepted children by uploads arriving while the write lock was held elsewhere")
                if kv["orphans"] != "0" or kv["unacknowledged_on_chain"] != "0" or kv["walk"] != "ok":
                    fails.append(f"after those uploads the chain cannot be walked through the acknowledged versions: {kv['orphans']} accepted versions are not on it, "
                                 f"{kv['unacknowledged_on_chain']} versions on it were never acknowledged, walk {kv['walk']}")
        if case.meta.get("race"):
            return fails
        if case.meta.get("http") and case.mode == "http":
            trace = http_as_lib(trace)
        while i < len(trace):
            o, ri, rm = trace[i]
            op = Op(o)
            if op.kind == "av" and resp_kind(ri) == "added":
                lst = acc.setdefault(op.c, [])
                if any(p == op.p for (_, p) in lst):
                    fails.append(f"op {i}: two accepted versions of client {op.c} share parent {op.p}")
                if "REUSED-ID" in ri:
                    fails.append(f"op {i}: version id reused")
                lst.append((added_id(ri), op.p))
            if op.kind == "gcv" and resp_kind(ri) in ("notfound", "gone"):
                # not-found is the answer at the latest version only
                hit = [v for (v, p) in acc.get(op.c, []) if p == op.p]
                if hit:
                    fails.append(f"op {i}: asking for the child of {op.p} (client {op.c}) answered {resp_kind(ri)} although version {hit[0]} was accepted on it: the chain cannot be walked past {op.p}")
            if op.kind == "mark" and op.args[0] == "walk":
                c = int(op.args[1])
                j = i + 1
                seen = []
                end = None
                while j < len(trace) and not trace[j][0].startswith("mark endwalk"):
                    fv = found_version(trace[j][1])
                    if fv:
                        seen.append((fv[0], fv[1]))
                    else:
                        end = resp_kind(trace[j][1])
                    j += 1
                want = acc.get(c, [])
                if want:
                    if seen != want:
                        fails.append(f"op {i}: walk of client {c} returned {seen}, accepted were {want}")
                    elif end != "notfound":
                        fails.append(f"op {i}: walk of client {c} ended with {end}, not notfound")
                i = j
            i += 1
        return fails
    def nontrivial(self, case, trace):
        acc = sum(1 for (o, ri, _) in trace if o.startswith("av ") and resp_kind(ri) == "added")
        rej = sum(1 for (o, ri, _) in trace if o.startswith("av ") and resp_kind(ri) == "conflict")
        return acc >= 3 and rej >= 1


# ------------------------------------------------------------------ C02
def cas_check(i, trace, fails, http=False):
    """AddVersion at index i must be a compare-and-append relative to the dumps around it."""
    o, ri, rm = trace[i]
    op = Op(o)
    # dumps of all clients immediately before and after
    before, after = {}, {}
    j = i - 1
    while j >= 0 and trace[j][0].startswith("dump "):
        before[Op(trace[j][0]).c] = Dump(trace[j][1]); j -= 1
    j = i + 1
    while j < len(trace) and trace[j][0].startswith("dump "):
        after[Op(trace[j][0]).c] = Dump(trace[j][1]); j += 1
    if op.c not in after or (op.c not in before and not (http and before)):
        return False
    # a client id first seen in this very request is not in the dumps before it: it was absent
    b, a = before.get(op.c, Dump("dump absent data=na probes=")), after[op.c]
    if not (b.ok and a.ok):
        fails.append(f"op {i}: dump failed around add_version"); return True
    kind = resp_kind(ri)
    for nm, d in (("before", b), ("after", a)):
        # "the client's current latest version" is a version: nil while it has none, else one that is stored
        if not d.absent and d.latest != 0 and d.latest in d.by_id and d.by_id.get(d.latest) is None:
            fails.append(f"op {i}: {nm} the request the client's latest pointer names {d.latest}, which is not a stored version of this client "
                         f"(the client has no such version: requests are then decided against a version that does not exist)")
        # "the client has no versions yet": nothing is stored for it
        if not d.absent and d.latest == 0 and d.versions():
            fails.append(f"op {i}: {nm} the request the client's latest pointer is nil although versions of this client are stored "
                         f"({len(d.versions())} visible): the client counts as having no versions and any parent is accepted")
    if b.absent:
        # the library reports NoSuchClient; the HTTP handler creates the client and accepts
        want = "added" if http else "noclient"
        if kind != want:
            fails.append(f"op {i}: add_version for a client the server has never seen answered {ri}")
        expect_accept = True if http else None
    else:
        expect_accept = (b.latest == 0) or (op.p == b.latest)
        if expect_accept and kind != "added":
            fails.append(f"op {i}: parent {op.p} equals latest {b.latest} (or no versions) but answer was {ri}")
        if not expect_accept and kind == "added":
            fails.append(f"op {i}: accepted on parent {op.p} although latest is {b.latest}")
        if not expect_accept and kind == "conflict" and int(ri.split()[1]) != b.latest:
            fails.append(f"op {i}: conflict names {ri.split()[1]}, latest is {b.latest}")
        if not expect_accept and kind not in ("conflict", "added"):
            fails.append(f"op {i}: rejected request answered {ri}")
    if kind == "added":
        v = added_id(ri)
        if v == 0:
            fails.append(f"op {i}: nil version id issued")
        if "REUSED-ID" in ri:
            fails.append(f"op {i}: version id {v} had been seen before")
        if a.latest != v:
            fails.append(f"op {i}: latest after accept is {a.latest}, response said {v}")
        rec = (v, op.p, op.data)
        if a.by_id.get(v) != rec:
            fails.append(f"op {i}: stored record {a.by_id.get(v)} != submitted {rec}")
        if a.by_parent.get(op.p) != rec and b.by_parent.get(op.p) is None:
            fails.append(f"op {i}: child-of-parent lookup gives {a.by_parent.get(op.p)}, expected {rec}")
        # everything else about the client unchanged, counter +1 iff a snapshot exists
        if (b.snap is None) != (a.snap is None):
            fails.append(f"op {i}: snapshot presence changed by add_version")
        elif b.snap is not None:
            if (a.snap[0], a.snap[1]) != (b.snap[0], b.snap[1]) or a.data != b.data:
                fails.append(f"op {i}: snapshot id/time/bytes changed by add_version")
            if a.snap[2] != b.snap[2] + 1:
                fails.append(f"op {i}: versions-since counter {b.snap[2]} -> {a.snap[2]} on accept")
        for k in b.by_id:
            if k != v and a.by_id.get(k) != b.by_id.get(k):
                fails.append(f"op {i}: existing version {k} changed by add_version")
            if k != op.p and a.by_parent.get(k) != b.by_parent.get(k):
                fails.append(f"op {i}: child of {k} changed by add_version")
    else:
        if a.key(False, b.by_id.keys()) != b.key(False):
            fails.append(f"op {i}: client state changed by a rejected add_version ({ri})")
        if any(v is not None for k, v in list(a.by_id.items()) + list(a.by_parent.items()) if k not in b.by_id):
            fails.append(f"op {i}: a rejected add_version stored a version")
    for c2 in before:
        if c2 != op.c and c2 in after and before[c2].key(False) != after[c2].key(False, before[c2].by_id.keys()):
            fails.append(f"op {i}: add_version of client {op.c} changed client {c2}")
    return True


def http_as_lib(trace):
    """rewrite well-formed HTTP add-version requests and their responses into library form so
    that the same compare-and-append oracle reads them"""
    from .props_http import HOp, HResp
    out = []
    allowlisted = any(o.startswith("allow ") and not o.startswith("allow none") for (o, _, _) in trace)
    for (o, ri, rm) in trace:
        if o.startswith("http "):
            h, r = HOp(o), HResp(ri)
            if r.status == 403 and allowlisted:
                # refused by the allow-list of this case (property C16): not an add-version outcome
                out.append(("refused " + o, ri, rm)); continue
            if h.route == "av" and h.valid():
                if r.status == 200 and r.xv.isdigit():
                    rr = f"added {r.xv} {'none' if r.xs == '-' else r.xs}"
                elif r.status == 409 and r.xp.isdigit():
                    rr = f"conflict {r.xp}"
                elif r.status == 404:
                    rr = "noclient"
                else:
                    rr = f"error-{r.status}"
                out.append((f"av {h.cid} {h.seg} {h.fresh} {h.now} {h.body()}", rr, rr))
            elif h.route == "as" and h.valid():
                rr = "snapack" if r.status == 200 else ("noclient" if r.status == 404 else f"error-{r.status}")
                out.append((f"as {h.cid} {h.seg} {h.now} {h.body()}", rr, rr))
            continue
        out.append((o, ri, rm))
    return out


class C02(L1Prop):
    id = "C02"
    overlap = True
    rule = ("visited states (random prefixes incl. snapshots, non-nil bases, several clients) x every class of "
            "requested parent (nil, latest, ancestors, base, fresh, foreign, own client id), each on a replayed copy "
            "of the state, with a complete dump of all clients before and after; non-trivial = target client has "
            ">=1 version before the request; distinct by hash of concrete ops")
    def cases(self, rng, tier):
        nstates = sizes(tier, 100, 500)
        out = []
        for k in range(nstates):
            r2 = random.Random(rng.getrandbits(64))
            nc = r2.choice([1, 2, 3])
            seedk = r2.getrandbits(64)
            for ci, cls in enumerate(PARENT_CLASSES):
                rr = random.Random(seedk)      # same prefix for every class
                ops, g = rand_prefix(rr, rr.randint(0, 25), nc, False, True, True)
                c = rr.randint(1, nc)
                o = (c % nc) + 1
                if c not in g.created and rr.random() < 0.8:
                    ops.append(f"ensure {c}")
                ops += ["dumpall", f"av {c} {cls.format(c=c, o=o)} {payload(rr)}", "dumpall"]
                out.append(Case(f"c02-{k}-{ci}", ops, {"target": len(ops) - 2}))
        # an EMPTY history segment through the library entry point (the HTTP handler refuses it, other
        # embedders need not): it is a version like any other
        for k in range(sizes(tier, 8, 40)):
            n = k % 4
            ops = ["ensure 1"] + [f"av 1 {'nil' if i == 0 else 'latest:1'} b:1,{i}" for i in range(n)]
            for cls in (["latest:1", "latest:1", "anc:1:1", "nil"] if n else ["nil", "latest:1", "fresh"]):
                ops += ["dumpall", f"av 1 {cls} e", "dumpall"]
            out.append(Case(f"c02-empty-{k}", ops, {"target": 0}))
        # the HTTP entry point: every class of parent, plus the retransmission of an earlier accepted
        # request (same stale parent, byte-identical payload) which must be a conflict like any other
        nh = sizes(tier, 30, 150)
        for k in range(nh):
            r2 = random.Random(rng.getrandbits(64))
            c, o = 1, 2
            n = r2.randint(1, 6)
            pre = []
            for cc in (1, 2):
                for i in range(n if cc == 1 else 2):
                    par = ("nil" if r2.random() < 0.5 else "fresh") if i == 0 else f"latest:{cc}"
                    pre.append(f"http POST av hyph={par} hyph={cc} history b:{10 + i},{cc}")
                if r2.random() < 0.5:
                    pre.append(f"http POST as hyph=latest:{cc} hyph={cc} snapshot b:9")
            classes = [x.format(c=c, o=o) for x in PARENT_CLASSES if not x.startswith("client")]
            for ci, cls in enumerate(classes):
                # bodies of one chunk (sent with Content-Length) and of several (streamed, no length announced)
                body = [f"b:77,{ci}", f"chunks:{3 + ci},{1 + k % 7},5", f"chunks:1,1,{2 + ci}"][(k + ci) % 3]
                ops = pre + ["dumpall", f"http POST av hyph={cls} hyph={c} history {body}", "dumpall"]
                out.append(Case(f"c02-h{k}-{ci}", ops, {"http": True}, mode="http"))
            # the very first request for a client the server has never seen (the handler's
            # create-and-retry path): the stored record must still be exactly what was submitted
            for ci, par in enumerate(("nil", "fresh", "ver:1:0", "latest:2")):
                ops = pre + ["dumpall", f"http POST av hyph={par} hyph=3 history b:55,{ci},{k % 250}", "dumpall"]
                out.append(Case(f"c02-h{k}-new{ci}", ops, {"http": True}, mode="http"))
            # an upload that breaks off part-way (nothing may be stored for it) followed by complete
            # uploads handled by the same worker: what is stored is exactly what THAT request submitted
            for ci, (who, brk) in enumerate(((1, f"brk:{4 + k % 9}"), (2, f"brk:{3 + k % 5},{2 + k % 11}"), (3, "brk:7"))):
                ops = pre + ["dumpall", f"http POST av hyph=latest:{who} hyph={who} history {brk}", "dumpall",
                             f"http POST av hyph=latest:{c} hyph={c} history b:66,{ci}", "dumpall",
                             f"http POST av hyph=latest:{o} hyph={o} history chunks:2,{1 + ci}", "dumpall"]
                out.append(Case(f"c02-h{k}-brk{ci}", ops, {"http": True}, mode="http"))
            # retransmissions of the i-th accepted request of client 1
            for i in range(n):
                par = f"ver:1:{i - 1}" if i > 0 else None
                if par is None:
                    continue
                ops = pre + ["dumpall", f"http POST av hyph={par} hyph=1 history b:{10 + i},1", "dumpall"]
                out.append(Case(f"c02-h{k}-rt{i}", ops, {"http": True}, mode="http"))
        # an AddVersion whose storage step fails (at the write or at the commit) is followed by the
        # client's retry and by a stale request: both are still decided by the STORED latest version
        for k in range(sizes(tier, 10, 80)):
            n = rng.randint(1, 4)
            ops = ["ensure 1"] + [f"av 1 {'nil' if i == 0 else 'latest:1'} b:1,{i}" for i in range(n)]
            for j in range(rng.randint(1, 3)):
                plan = rng.choice(["3:before", "2:before", "2:after", "1:before"])
                ops += [f"fault {plan}", f"av 1 latest:1 b:5,{j}"]
                if rng.random() < 0.5:
                    ops += ["dumpall", f"av 1 {rng.choice(['nil', 'fresh', 'anc:1:1'])} b:6,{j}", "dumpall"]
                ops += ["dumpall", f"av 1 latest:1 b:7,{j}", "dumpall"]
            out.append(Case(f"c02-fault-{k}", ops, {"only": "sqlite", "faults": True}))
        # the first upload of a NEW client fails in storage after the handler has created the client: the
        # client exists and has no versions, so whatever parent the next upload names is acceptable
        for k in range(sizes(tier, 10, 60)):
            par = ["fresh", "nil", "$odd0", "latest:1"][k % 4]
            idx = 5 + k % 5
            ops = ["http POST av hyph=nil hyph=1 history b:1", "dumpall", f"fault {idx}:before", f"http POST av hyph={par} hyph=9 history b:1,{k}", "dumpall",
                   f"http POST av hyph={['nil', 'fresh', '$odd1'][k % 3]} hyph=9 history b:2,{k}", "dumpall",
                   "http POST av hyph=latest:9 hyph=9 history b:3", "dumpall", "http POST av hyph=nil hyph=9 history b:4", "dumpall"]
            out.append(Case(f"c02-newfault-{k}", ops, {"only": "sqlite", "faults": True, "http": True}, mode="http"))
        # several server objects on one directory that came into being at the same moment in the same process (the workers of
        # one executable): every upload, through whichever of them, is issued an id never issued before
        for k in range(sizes(tier, 4, 16)):
            ops = ["ensure 1", "ensure 2", "instpre 1 2 3 4"]
            for step in range(3):
                for i in (1, 2, 3, 4):
                    c = 1 + (i + step + k) % 2
                    ops += [f"inst {i}", "dumpall", f"av {c} latest:{c} b:{step},{i}", "dumpall"]
            ops += ["inst 0", "walk 1", "walk 2"]
            out.append(Case(f"c02-twins-{k}", ops, {"only": "sqlite"}))
        # several clients upload the SAME bytes on the SAME parent (nil, a shared foreign parent): each is issued an id never
        # issued before
        for k in range(sizes(tier, 6, 24)):
            par = ["nil", "$1", "nil"][k % 3]
            ops = []
            for c in (1, 2, 3):
                ops += [f"ensure {c}", "dumpall", f"av {c} {par} b:5,{k % 200}", "dumpall"]
            for c in (1, 2, 3):
                ops += ["dumpall", f"av {c} latest:{c} b:6", "dumpall"]
            out.append(Case(f"c02-same-{k}", ops))
        # a server restricted to a list of clients, restarted (same list, another list, no list) in the middle of
        # the clients' histories: acceptance is still decided by the stored latest version
        for k in range(sizes(tier, 8, 50)):
            al = ["1,2", "1", "1,2,3", "2,1"][k % 4]
            ops = [f"allow {al}"]
            for c in (1, 2):
                ops += [f"http POST av hyph={'nil' if (k + c) % 2 else 'fresh'} hyph={c} history b:1,{c}"]
                ops += [f"http POST av hyph=latest:{c} hyph={c} history b:2,{i}" for i in range(1 + (k + c) % 3)]
            if k % 3 == 1:
                ops.append("http POST as hyph=latest:1 hyph=1 snapshot b:9")
            for step, nxt in enumerate(([al], [al, "1,2,3"], ["none", al])[k % 3]):
                ops += [f"allow {nxt}", "reopen"] if nxt != al else ["reopen"]
                ops += ["dumpall", f"http POST av hyph={['anc:1:1', 'nil', 'fresh'][(k + step) % 3]} hyph=1 history b:5,{step}", "dumpall",
                        f"http POST av hyph=latest:1 hyph=1 history b:6,{step}", "dumpall",
                        f"http POST av hyph=latest:2 hyph=2 history b:7,{step}", "dumpall"]
            out.append(Case(f"c02-allow-{k}", ops, {"http": True}, mode="http"))
        # several server instances on one directory, used in turn
        for k in range(sizes(tier, 12, 100)):
            ops = ["ensure 1"]
            for step in range(rng.randint(5, 14)):
                ops.append(f"inst {rng.randrange(3)}")
                par = rng.choice(["latest:1"] * 5 + ["nil", "anc:1:1", "fresh"])
                ops += ["dumpall", f"av 1 {par} b:{step},{k % 250}", "dumpall"]
            out.append(Case(f"c02-inst-{k}", ops, {"only": "sqlite"}))
        # on a data directory written by the pinned release: every class of parent
        classes = ["latest:{c}", "nil", "anc:{c}:1", "fresh", "base:{c}", "latest:{o}"]
        def tail(name, c, nacc, snap, o):
            ops = []
            for j, cls in enumerate(classes):
                ops += ["dumpall", f"av {c} {cls.format(c=c, o=o)} b:2,{j}", "dumpall"]
            return ops
        out += fixture_cases("c02", rng, sizes(tier, 7, 28), tail)
        return out
    def relevant(self, i, trace):
        o, ri, rm = trace[i]
        if o.startswith("http "):
            from .props_http import HOp, HResp
            h, a, b = HOp(o), HResp(ri), HResp(rm)
            return h.route == "av" and h.valid() and (a.status, a.xv, a.xp) != (b.status, b.xv, b.xp)
        op = Op(o)
        if op.kind == "av":
            ka, kb = ri.split()[:2], rm.split()[:2]
            return ka != kb or "REUSED-ID" in ri
        if op.kind == "dump":
            # a dump that differs right after an add_version
            # (also: the first look at a directory the pinned release wrote, whose record ends with the versions it accepted)
            j = i - 1
            while j >= 0 and trace[j][0].startswith("dump "):
                j -= 1
            return j >= 0 and trace[j][0].startswith(("av ", "mark fixture-loaded"))
        return False
    def oracle(self, case, trace, backend):
        fails = []
        http = bool(case.meta.get("http"))
        if http:
            trace = http_as_lib(trace)
        for i, (o, ri, rm) in enumerate(trace):
            if o.startswith("av "):
                cas_check(i, trace, fails, http)
        return fails
    def nontrivial(self, case, trace):
        for i, (o, ri, rm) in enumerate(trace):
            if o.startswith("av ") and i > 0 and trace[i - 1][0].startswith("dump "):
                d = [Dump(trace[j][1]) for j in range(i - 1, -1, -1) if trace[j][0].startswith("dump ") and Op(trace[j][0]).c == Op(o).c][:1]
                return bool(d) and d[0].latest != 0
        return False


# ------------------------------------------------------------------ C07
class C07(L1Prop):
    id = "C07"
    overlap = True
    rule = ("random histories; after every operation class (accepted/rejected versions, snapshots, other clients' "
            "requests, backdating, reopen) every previously accepted version is re-read by asking for the child of "
            "its parent; non-trivial = some version re-read >=3 times across >=2 later operation kinds")
    def cases(self, rng, tier):
        n, length = sizes(tier, (240, 30), (1200, 120))
        out = []
        for k in range(n):
            nc = rng.choice([1, 2, 3])
            def obs(g, step):
                if rng.random() < 0.5:
                    return [f"reread {c}" for c in sorted(g.created)]
                return []
            ops, g = rand_prefix(rng, rng.randint(6, length), nc, k % 4 == 0, True, True, obs)
            ops += ["reopen"] + [f"reread {c}" for c in range(1, nc + 1)]
            out.append(Case(f"c07-{k}", ops))
        # the parent is asked about BEFORE the client's first upload names it (not-found then), and again afterwards
        for k in range(sizes(tier, 6, 24)):
            par = ["$1", "nil", "$odd1a", "client:1"][k % 4]
            ops = (["ensure 1"] if k % 2 else []) + [f"gcv 1 {par}", f"gcv 1 {par}", f"av 1 {par} b:1,{k % 200}", f"gcv 1 {par}", "av 1 latest:1 b:2", f"gcv 1 {par}", "gcv 1 latest:1",
                    "av 1 latest:1 b:3", "gcv 1 anc:1:1", f"gcv 1 {par}", "reread 1"]
            out.append(Case(f"c07-asked-first-{k}", ops))
        # a storage call fails while an accepted version is being read back: the answer may be an error — never that
        # the version does not exist (gone / not-found), and afterwards it is read as ever
        for k in range(sizes(tier, 6, 30)):
            n = 2 + k % 4
            ops = ["ensure 1"] + [f"av 1 {('nil' if k % 2 else 'fresh') if i == 0 else 'latest:1'} b:1,{i}" for i in range(n)]
            for i in range(n):
                par = "base:1" if i == 0 else f"ver:1:{i - 1}"
                for idx in (0, 1, 2, 3):
                    ops += [f"fault {idx}:before", f"gcv 1 {par}"]
            ops += ["reread 1"]
            out.append(Case(f"c07-readfault-{k}", ops, {"only": "sqlite", "faults": True, "readfault": True}))
        # other clients whose FIRST upload names a parent that stands in an arithmetic relation to the ids already
        # in use (the two client ids XORed or added, a client id XORed with the other client's latest version,
        # the other client's id itself): whatever becomes of that upload, every accepted version is still read
        for k in range(sizes(tier, 10, 40)):
            n = 1 + k % 4
            rel = ["xorc:1:2", "xorc:2:1", "xorl:2:1", "xorl:1:1", "sumc:1:2", "client:1", "client:2"][k % 7]
            ops = ["ensure 1"] + [f"av 1 {('nil' if k % 3 else 'fresh') if i == 0 else 'latest:1'} b:1,{i}" for i in range(n)]
            ops += ["reread 1", "ensure 2", f"av 2 {rel} b:2,{k % 200}", "reread 1", "reread 2", "av 2 latest:2 b:3", f"av 1 {rel} b:4",
                    "reread 1", "reread 2", "av 1 latest:1 b:5", "reread 1", "walk 1", "walk 2"]
            out.append(Case(f"c07-related-{k}", ops))
        # a write that fails half way (the second statement of add_version, or the write of a snapshot)
        # followed by the retry: what was accepted before and what is accepted by the retry is what is read
        for k in range(sizes(tier, 8, 60)):
            n = rng.randint(1, 5)
            ops = ["ensure 1"] + [f"av 1 {'nil' if i == 0 else 'latest:1'} b:1,{i}" for i in range(n)]
            for j in range(rng.randint(1, 3)):
                tbl, stmt = rng.choice([("clients", "UPDATE"), ("versions", "INSERT")])
                ops += [f"sqlfault {tbl} {stmt} 2", f"av 1 latest:1 b:66,{j}", "reread 1", f"av 1 latest:1 b:2,{j}", "reread 1"]
                if rng.random() < 0.5:
                    ops += ["sqlfault clients UPDATE 2", "as 1 latest:1 b:9", "reread 1"]
            ops += ["reopen", "reread 1", "walk 1"]
            out.append(Case(f"c07-sqlfault-{k}", ops, {"only": "sqlite"}))
        # through the HTTP entry point with an allow-list naming the client, restarted on the same
        # store: a stale request after the restart must still be a conflict, nothing is re-created
        for k in range(sizes(tier, 8, 60)):
            n = rng.randint(2, 5)
            ops = ["allow 1,2"] + [f"http POST av hyph={'nil' if i == 0 else 'latest:1'} hyph=1 history b:1,{i}" for i in range(n)]
            if rng.random() < 0.6:
                ops.append("http POST as hyph=latest:1 hyph=1 snapshot b:9,9")
            ops += ["reopen", f"http POST av hyph=ver:1:{rng.randrange(n - 1)} hyph=1 history b:7,7",
                    "http GET snap - hyph=1 absent e"]
            ops += [f"http GET gcv hyph={'base:1' if i == 0 else 'ver:1:%d' % (i - 1)} hyph=1 absent e" for i in range(n)]
            ops += ["http POST av hyph=latest:1 hyph=1 history b:8,8", "http GET gcv hyph=nil hyph=1 absent e"]
            out.append(Case(f"c07-allow-{k}", ops, {"http": True}, mode="http"))
        # an upload whose COMMIT fails (everything before it was executed), then the retry on the same parent
        # is accepted: later reads of that parent return the ACCEPTED version, in this process and after reopen
        for k in range(sizes(tier, 6, 30)):
            n = rng.randint(1, 4)
            ops = ["ensure 1"] + [f"av 1 {'nil' if i == 0 else 'latest:1'} b:1,{i}" for i in range(n)]
            for j in range(rng.randint(1, 3)):
                ops += [f"fault {rng.choice(['3:before', '3:before', '2:after'])}", f"av 1 latest:1 b:66,{j}", "gcv 1 latest:1",
                        f"av 1 latest:1 b:2,{j}", "gcv 1 anc:1:1", "reread 1"]
            ops += ["reopen", "reread 1"]
            out.append(Case(f"c07-commitfault-{k}", ops, {"only": "sqlite", "faults": True}))
        # the real executable, killed with SIGKILL (every other time while another connection keeps the
        # write-ahead log from being checkpointed) and restarted on its directory: every accepted version is
        # still the child of its parent, before and after further uploads
        for k in range(sizes(tier, 2, 10)):
            n = rng.randint(2, 5)
            ops = ["boot listen=flag:1 dir=flag allow=none versions=default days=default"]
            if k % 2 == 0:
                ops.append("hold")
            ops += [f"http@0 POST av hyph={'nil' if i == 0 else 'latest:1'} hyph=1 history b:1,{i}" for i in range(n)]
            reads = [f"http@0 GET gcv hyph={'nil' if i == 0 else 'ver:1:%d' % (i - 1)} hyph=1 absent e" for i in range(n)]
            ops += reads + ["kill", "restart"] + reads + ["http@0 POST av hyph=latest:1 hyph=1 history b:2"] + reads
            if k % 2 == 0:
                ops.append("unhold")
            ops.append("kill")
            out.append(Case(f"c07-bin-{k}", ops, {"http": True, "only": "sqlite"}, mode="bin"))
        # history accepted by the pinned release stays what it was under this build
        def tail(name, c, nacc, snap, o):
            return [f"reread {c}", f"as {c} latest:{c} b:9,1", f"av {c} latest:{c} b:1,1", f"av {c} anc:{c}:2 b:1,2", f"reread {c}",
                    f"as {c} anc:{c}:1 b:9,2", f"reread {c}", "reopen", f"av {c} latest:{c} b:1,3", f"reread {c}", f"reread {o}"]
        out += fixture_cases("c07", rng, sizes(tier, 7, 28), tail)
        return out
    def relevant(self, i, trace):
        o, ri, rm = trace[i]
        if o.startswith("http "):
            from .props_http import HOp, HResp
            if HOp(o).route != "gcv":
                return False
            a, b = HResp(ri), HResp(rm)
            return (a.status, a.xv, a.xp, a.body) != (b.status, b.xv, b.xp, b.body) and 200 in (a.status, b.status)
        if Op(o).kind == "gcv":
            return (found_version(rm) is not None or found_version(ri) is not None) and ri != rm
        return False
    def oracle(self, case, trace, backend):
        fails, rec = [], {}
        if case.meta.get("http"):
            from .props_http import HOp, HResp
            for i, (o, ri, rm) in enumerate(trace):
                if not o.startswith("http "):
                    continue
                h, r = HOp(o), HResp(ri)
                if h.route == "av" and r.status == 200 and r.xv.isdigit():
                    if (h.cid, h.seg) in rec:
                        fails.append(f"op {i}: version {r.xv} was accepted as the child of {h.seg} although {rec[(h.cid, h.seg)][0]} had been accepted as its child before: one of them can no longer be what the child request returns")
                    rec.setdefault((h.cid, h.seg), (r.xv, h.seg, h.body()))
                if h.route == "gcv" and (h.cid, h.seg) in rec:
                    got = (r.xv, r.xp, r.body) if r.status == 200 else None
                    if got != rec[(h.cid, h.seg)]:
                        fails.append(f"op {i}: child of {h.seg} for client {h.cid} is now {ri.split(' | ')[0][:70]}, accepted was {rec[(h.cid, h.seg)]}")
            return fails
        for i, (o, ri, rm) in enumerate(trace):
            op = Op(o)
            if op.kind == "av" and resp_kind(ri) == "added":
                if (op.c, op.p) in rec:
                    fails.append(f"op {i}: version {added_id(ri)} was accepted as the child of {op.p} although {rec[(op.c, op.p)][0]} had been accepted as its child before")
                rec.setdefault((op.c, op.p), (added_id(ri), op.p, op.data))
            if op.kind == "gcv" and (op.c, op.p) in rec:
                if case.meta.get("readfault") and resp_kind(ri) == "error":
                    continue        # a storage call failed and the caller was told so
                if found_version(ri) != rec[(op.c, op.p)]:
                    fails.append(f"op {i}: child of {op.p} for client {op.c} is now {ri}, accepted was {rec[(op.c, op.p)]}")
        return fails
    def nontrivial(self, case, trace):
        reads = {}
        for (o, ri, rm) in trace:
            if o.startswith("gcv ") and found_version(ri):
                reads[o] = reads.get(o, 0) + 1
        return any(v >= 3 for v in reads.values())


# ------------------------------------------------------------------ C08
class C08(L1Prop):
    id = "C08"
    overlap = True
    rule = ("visited states x every class of p: GetChildVersion(p) immediately followed by AddVersion(p) on the same "
            "state (prefix replayed per class); non-trivial = client has >=2 versions; distinct by concrete ops")
    def cases(self, rng, tier):
        nstates = sizes(tier, 100, 500)
        out = []
        for k in range(nstates):
            r2 = random.Random(rng.getrandbits(64))
            nc = r2.choice([1, 2, 3]); seedk = r2.getrandbits(64)
            for ci, cls in enumerate(PARENT_CLASSES):
                rr = random.Random(seedk)
                ops, g = rand_prefix(rr, rr.randint(0, 25), nc, False, True, False)
                c = rr.randint(1, nc); o = (c % nc) + 1
                if c not in g.created and rr.random() < 0.8:
                    ops.append(f"ensure {c}")
                pl = payload(rr)
                # the same concrete id must be used for both requests: resolve once via a variable
                spec = cls.format(c=c, o=o)
                if spec == "fresh":
                    spec = "$1"
                ops += [f"gcv {c} {spec}", f"av {c} {spec} {pl}"]
                out.append(Case(f"c08-{k}-{ci}", ops))
        # a storage call that fails while the child is looked up: the answer may be an error, never
        # not-found or gone for a parent whose child exists (nor found for one that has none)
        for k in range(sizes(tier, 6, 40)):
            n = rng.randint(2, 6)
            ops = ["ensure 1"] + [f"av 1 {('nil' if k % 2 else 'fresh') if i == 0 else 'latest:1'} b:3,{i}" for i in range(n)]
            for j in range(n):
                par = "base:1" if j == 0 else f"ver:1:{j - 1}"
                for kk in (1, 2, 3, 4):
                    for when in ("before", "after"):
                        ops += [f"fault {kk}:{when}", f"gcv 1 {par}"]
            for kk in (1, 2, 3):
                ops += [f"fault {kk}:before", "gcv 1 latest:1", f"fault {kk}:before", "gcv 1 fresh"]
            out.append(Case(f"c08-fault-{k}", ops, {"faults": True, "only": "sqlite"}))
        # several server instances on one directory, used in turn: the pair is asked of one instance
        # right after another instance has written
        for k in range(sizes(tier, 12, 100)):
            ops = ["ensure 1"]
            for step in range(rng.randint(4, 12)):
                ops += [f"inst {rng.randrange(3)}", f"av 1 latest:1 b:{step}"]
                if rng.random() < 0.7:
                    spec = rng.choice(["latest:1", "anc:1:1", "anc:1:2", "nil"])
                    ops += [f"inst {rng.randrange(3)}", f"gcv 1 {spec}", f"av 1 {spec} b:77,{step}"]
            out.append(Case(f"c08-inst-{k}", ops, {"only": "sqlite"}))
        # ids of other shapes (version 7, version 1, all ones, arbitrary bits) as the parent of a client's
        # first version, as the parent asked about on an empty / unknown / established client
        for k in range(sizes(tier, 10, 50)):
            kind = k % 5
            ops = ["ensure 1"] if k % 2 else []
            ops += [f"gcv 1 $odd{kind}a", f"av 1 $odd{kind}a b:1", f"gcv 1 $odd{kind}a", f"av 1 latest:1 b:2", f"gcv 1 $odd{kind}a", f"gcv 1 base:1",
                    f"gcv 1 $odd{kind}b", f"av 1 $odd{kind}b b:3", f"gcv 2 $odd{kind}c", f"gcv 1 nil", f"av 1 nil b:4"]
            out.append(Case(f"c08-odd-{k}", ops))
        def tail(name, c, nacc, snap, o):
            ops = []
            for j, spec in enumerate([f"latest:{c}", f"anc:{c}:1", "nil", f"base:{c}", "fresh", f"latest:{o}", f"anc:{c}:3"]):
                ops += [f"gcv {c} {spec}", f"av {c} {spec} b:77,{j}"]
            return ops
        out += fixture_cases("c08", rng, sizes(tier, 7, 28), tail)
        # a server restricted to a list that does NOT name a client whose history it stores (dropped from the list at a
        # restart): the question and the upload that follows get the same kind of answer
        for k in range(sizes(tier, 6, 20)):
            ops = [f"http POST av hyph=nil hyph={c} history b:1,{c}" for c in (1, 2)] + [f"http POST av hyph=latest:{c} hyph={c} history b:2,{c}" for c in (1, 2)]
            ops += [f"allow {['1', '2', '3', '1,3'][k % 4]}"] + (["reopen"] if k % 2 else [])
            for c in (1, 2):
                for spec in (f"latest:{c}", f"anc:{c}:1", "nil", "$1"):
                    ops += [f"http GET gcv hyph={spec} hyph={c} absent e", f"http POST av hyph={spec} hyph={c} history b:3,{k % 100}"]
            out.append(Case(f"c08-allow-{k}", ops, {"http": True, "allow": True}, mode="http"))
        # an upload fails in storage (at the write, at the commit); afterwards the question and the upload that follows agree
        for k in range(sizes(tier, 6, 24)):
            n = 1 + k % 3
            ops = ["ensure 1"] + [f"av 1 {'nil' if i == 0 else 'latest:1'} b:1,{i}" for i in range(n)]
            for j, plan in enumerate(["2:before", "3:before", "1:before", "0:before", "2:after"][: 2 + k % 4]):
                ops += [f"fault {plan}", f"av 1 latest:1 b:6,{j}", "gcv 1 latest:1", f"av 1 latest:1 b:7,{j}", "gcv 1 anc:1:1", f"av 1 anc:1:1 b:8,{j}"]
            out.append(Case(f"c08-avfault-{k}", ops, {"only": "sqlite", "avfault": True}))
        # versions whose history segment is EMPTY somewhere in the chain (the library accepts them; only the HTTP
        # handler refuses an empty body): asked about their parents, about themselves, and the upload that follows
        for k in range(sizes(tier, 8, 30)):
            n = 2 + k % 4
            empty_at = {k % n, (k // 2) % n} if k % 3 else {n - 1}
            ops = ["ensure 1"] + [f"av 1 {('nil' if k % 2 else 'fresh') if i == 0 else 'latest:1'} {'e' if i in empty_at else 'b:1,%d' % i}" for i in range(n)]
            for j in range(n):
                par = "base:1" if j == 0 else f"ver:1:{j - 1}"
                ops += [f"gcv 1 {par}", f"av 1 {par} b:77,{j}"]
            ops += ["gcv 1 latest:1", "av 1 latest:1 e", "gcv 1 anc:1:1", "av 1 anc:1:1 b:78", "gcv 1 latest:1", "av 1 latest:1 b:79"]
            out.append(Case(f"c08-emptyseg-{k}", ops))
        # over HTTP, the parent (and the client id) written in every spelling the server accepts: the same
        # question and the same upload, on states where the answer is a version, gone and not-found
        for k in range(sizes(tier, 8, 40)):
            forms = ["upper", "simple", "braced", "urn", "hyph"]
            pf, cf = forms[k % 5], forms[(k // 5 + k) % 5]
            ops = [f"http POST av hyph={'nil' if k % 2 else '$3'} hyph=1 history b:1"] + [f"http POST av hyph=latest:1 hyph=1 history b:2,{i}" for i in range(1 + k % 4)]
            if k % 3 == 0:
                ops.append("http POST as hyph=latest:1 hyph=1 snapshot b:9")
            for spec in ("anc:1:1", "base:1", "latest:1", "$1", "nil", "anc:1:2"):
                ops += [f"http GET gcv {pf}={spec} {cf}=1 absent e", f"http POST av {pf}={spec} {cf}=1 history b:3,{k % 200}"]
            ops += [f"http GET gcv {pf}=$2 {cf}=2 absent e", f"http POST av {pf}=$2 {cf}=2 history b:4"]
            out.append(Case(f"c08-spell-{k}", ops, {"http": True}, mode="http"))
        # the real executable with every boolean switch it advertises (in --help) beyond the options the
        # model knows switched ON, by flag and by environment variable: the statement holds "for any
        # client state", whatever the operator configured
        for j in range(sizes(tier, 2, 6)):
            ops = [f"boot listen=flag:1 dir=flag allow=none versions=default days=default extra=auto:{'flag' if j % 2 == 0 else 'env'}"]
            for c in (1, 2):
                first = ["$1", "nil"][(c + j) % 2]
                ops += [f"http@0 GET gcv hyph={first} hyph={c} absent e", f"http@0 POST av hyph={first} hyph={c} history b:1,{c}"]
                for i in range(2 + j % 3):
                    ops += [f"http@0 POST av hyph=latest:{c} hyph={c} history b:2,{i}"]
                for spec in (f"latest:{c}", f"anc:{c}:1", "nil", "$2", f"base:{c}"):
                    ops += [f"http@0 GET gcv hyph={spec} hyph={c} absent e", f"http@0 POST av hyph={spec} hyph={c} history b:3"]
            ops += ["kill"]
            out.append(Case(f"c08-bin-{j}", ops, {"http": True, "only": "sqlite"}, mode="bin"))
        return out
    def relevant(self, i, trace):
        o, ri, rm = trace[i]
        if o.startswith("http "):
            from .props_http import HOp, HResp
            return HOp(o).route in ("gcv", "av") and HResp(ri).status != HResp(rm).status
        k = Op(o).kind
        if k == "gcv":
            return resp_kind(ri) != resp_kind(rm)
        if k == "av":
            return resp_kind(ri) != resp_kind(rm)
        return False
    def oracle(self, case, trace, backend):
        fails = []
        if case.meta.get("faults"):
            child, latest = {}, {}
            for i, (o, ri, rm) in enumerate(trace):
                op = Op(o)
                if op.kind == "av" and resp_kind(ri) == "added":
                    child[(op.c, op.p)] = added_id(ri); latest[op.c] = added_id(ri)
                if op.kind == "gcv":
                    g = resp_kind(ri)
                    if (op.c, op.p) in child:
                        fv = found_version(ri)
                        if g in ("notfound", "gone", "noclient") or (fv and fv[0] != child[(op.c, op.p)]):
                            fails.append(f"op {i}: get_child_version({op.p}) answered {ri} although the child {child[(op.c, op.p)]} exists (storage fault during the lookup)")
                    elif g == "found":
                        fails.append(f"op {i}: get_child_version({op.p}) answered {ri} but no child was ever accepted")
                    elif g == "gone" and latest.get(op.c) == op.p:
                        fails.append(f"op {i}: get_child_version(latest) answered gone")
            return fails
        if case.meta.get("http"):
            from .props_http import HOp, HResp
            for i in range(len(trace) - 1):
                if not (trace[i][0].startswith("http ") and trace[i + 1][0].startswith("http ")):
                    continue
                a, b = HOp(trace[i][0]), HOp(trace[i + 1][0])
                if a.route == "gcv" and b.route == "av" and a.valid() and b.valid() and a.cid == b.cid and a.seg == b.seg:
                    g, v = HResp(trace[i][1]).status, HResp(trace[i + 1][1]).status
                    if case.meta.get("allow") and 403 in (g, v):
                        if g != v:
                            fails.append(f"op {i}: under the allow-list GET get-child-version/{a.seg} of client {a.cid} answered {g} but the upload on that parent answered {v}")
                        continue
                    if g == 404 and v != 200:
                        fails.append(f"op {i}: GET get-child-version/{a.seg} answered 404 (nothing to fetch: an upload on this parent would be accepted) but the upload that followed was answered {v}")
                    if g == 410 and v != 409:
                        fails.append(f"op {i}: GET get-child-version/{a.seg} answered 410 (gone) but the upload on that parent was answered {v}")
                    if g not in (200, 404, 410):
                        fails.append(f"op {i}: GET get-child-version answered {g}")
            return fails
        for i in range(len(trace) - 1):
            a, b = Op(trace[i][0]), Op(trace[i + 1][0])
            if a.kind == "gcv" and b.kind == "av" and a.c == b.c and a.p == b.p:
                g, v = resp_kind(trace[i][1]), resp_kind(trace[i + 1][1])
                if g == "notfound" and v != "added":
                    fails.append(f"op {i}: get_child_version({a.p}) said not-found but add_version answered {trace[i+1][1]}")
                if g == "gone" and v != "conflict":
                    fails.append(f"op {i}: get_child_version({a.p}) said gone but add_version answered {trace[i+1][1]}")
                if g == "noclient" and v != "noclient":
                    fails.append(f"op {i}: unknown client for get_child_version but add_version answered {trace[i+1][1]}")
                if g in ("error", "panic"):
                    fails.append(f"op {i}: get_child_version failed: {g}")
        return fails
    def nontrivial(self, case, trace):
        return sum(1 for (o, ri, _) in trace if o.startswith("av ") and resp_kind(ri) == "added") >= 2


# ------------------------------------------------------------------ C12
def spec_urgency(days_cfg, vers_cfg, snap, now, tol=0):
    """urgency from the property text over unbounded integers; snap = (version, ts, since) or None"""
    if snap is None:
        return "high"
    secs = now - snap[1]
    days = abs(secs) // 86400 * (1 if secs >= 0 else -1)      # truncation toward zero
    since = snap[2]
    def cls(t, x):
        high = (3 * t) // 2
        return 2 if x >= high else (1 if x >= t else 0)
    return ["none", "low", "high"][max(cls(days_cfg, days), cls(vers_cfg, since))]


I64MAX, U32MAX = 2 ** 63 - 1, 2 ** 32 - 1


class C12(L1Prop):
    id = "C12"
    rule = ("grid of (snapshot_days, snapshot_versions) targets incl. 0, 1, odd values, defaults and the extremes of "
            "i64/u32, each with snapshot ages and counters placed at low-1, low, high-1, high, 2*low via backdating "
            "and counter rewriting, plus random histories whose counter comes from really accepted versions; "
            "non-trivial = a measure within +-1 of a threshold or a target at a type extreme")
    DAYS = [0, 1, 2, 3, 13, 14, 15, 2 ** 31, 2 ** 62, (2 ** 63) // 3 - 1, (2 ** 63) // 3 + 1, I64MAX]
    VERS = [0, 1, 2, 3, 7, 100, 101, 2 ** 31 - 1, (2 ** 32) // 3, (2 ** 32) // 3 + 1, (2 ** 32) // 3 + 2, 2000000000, U32MAX]
    def cases(self, rng, tier):
        out = []
        grid = [(d, v) for d in self.DAYS for v in self.VERS]
        if tier != "thorough":
            grid = [g for k, g in enumerate(grid) if k % 3 == rng.randrange(3)] + [(14, 100), (I64MAX, U32MAX), (0, 0), (14, 2000000000), ((2**63)//3+1, 100)]
        k = 0
        for (d, v) in grid:
            ops = [f"cfg {d} {v}", "ensure 1", "av 1 nil b:1", "av 1 latest:1 b:2", "as 1 latest:1 b:9"]
            # counter points around the version thresholds
            for cnt in sorted(set(x for x in [v - 1, v, (3 * v) // 2 - 1, (3 * v) // 2, 2 * v, 0] if 0 <= x <= U32MAX - 1)):   # the counter itself must stay below 2^32
                ops += [f"setcounter 1 {cnt}", "dump 1", "av 1 latest:1 b:3", "dump 1"]
            ops += ["setcounter 1 0"]
            # age points around the day thresholds (days that fit a chrono duration)
            for age in sorted(set(x for x in [d - 1, d, (3 * d) // 2 - 1, (3 * d) // 2, 2 * d, 0] if 0 <= x <= 200000)):
                for margin in (-3600, 3600):
                    ops += ["as 1 latest:1 b:8", f"backdate 1 {age * 86400 + margin}", "setcounter 1 0", "dump 1", "av 1 latest:1 b:4", "dump 1"]
            # a snapshot stamped AHEAD of the server's clock (the clock was corrected, the database moved
            # to another host) is not old: its age is below every non-negative target
            for ahead in sorted(set(x for x in [1, d, (3 * d) // 2, 2 * d + 1, 21, 30] if 0 < x <= 200000)):
                ops += ["as 1 latest:1 b:8", f"backdate 1 {-(ahead * 86400 + 3600)}", "setcounter 1 0", "dump 1", "av 1 latest:1 b:4", "dump 1"]
            out.append(Case(f"c12-grid-{k}", ops, {"cfg": [d, v]})); k += 1
        # the same through the HTTP entry point: the targets given to WebServer::new must be the ones
        # the urgency is computed from (0 and 1 included)
        hgrid = [(0, 0), (0, 100), (14, 0), (1, 1), (14, 100), (0, 1), (1, 0), (2, 3)]
        if tier == "thorough":
            hgrid += [(d, v) for d in (0, 1, 2, 14, 2 ** 31) for v in (0, 1, 2, 100, 2000000000, U32MAX)]
        for (d, v) in hgrid:
            ops = [f"cfg {d} {v}", "http POST av hyph=nil hyph=1 history b:1", "http POST av hyph=latest:1 hyph=1 history b:2",
                   "http POST as hyph=latest:1 hyph=1 snapshot b:9"]
            for cnt in sorted(set(x for x in [0, v - 1, v, (3 * v) // 2 - 1, (3 * v) // 2] if 0 <= x <= U32MAX - 1)):
                ops += [f"setcounter 1 {cnt}", "dump 1", "http POST av hyph=latest:1 hyph=1 history b:3", "dump 1"]
            ops += ["setcounter 1 0"]
            for age in sorted(set(x for x in [0, d - 1, d, (3 * d) // 2 - 1, (3 * d) // 2] if 0 <= x <= 200000)):
                ops += ["http POST as hyph=latest:1 hyph=1 snapshot b:8", f"backdate 1 {age * 86400 + 3600}", "setcounter 1 0",
                        "dump 1", "http POST av hyph=latest:1 hyph=1 history b:4", "dump 1"]
            for ahead in sorted(set(x for x in [1, d, (3 * d) // 2, 21] if 0 < x <= 200000)):
                ops += ["http POST as hyph=latest:1 hyph=1 snapshot b:8", f"backdate 1 {-(ahead * 86400 + 3600)}", "setcounter 1 0",
                        "dump 1", "http POST av hyph=latest:1 hyph=1 history b:4", "dump 1"]
            out.append(Case(f"c12-http-{k}", ops, {"cfg": [d, v], "http": True}, mode="http")); k += 1
        # the real executable: the targets given by flag / environment variable are the ones the urgency is
        # computed from
        for j, (vsrc, ysrc, d, v) in enumerate([("flag:2", "default", 14, 2), ("env:3", "flag:1", 1, 3), ("both:1/9", "env:2", 2, 1), ("flag:0", "flag:0", 0, 0)][:sizes(tier, 3, 4)]):
            ops = [f"boot listen=flag:1 dir=flag allow=none versions={vsrc} days={ysrc} log={['debug', 'trace', 'error', 'debug'][j % 4]}{' extra=auto:flag' if j == 1 else ''}", "http@0 POST av hyph=nil hyph=1 history b:1",
                   "http@0 POST av hyph=latest:1 hyph=1 history b:2", "http@0 POST as hyph=latest:1 hyph=1 snapshot b:9"]
            for i in range(5):
                ops += ["dump 1", f"http@0 POST av hyph=latest:1 hyph=1 history b:3,{i}", "dump 1"]
            ops += ["http@0 POST as hyph=latest:1 hyph=1 snapshot b:8", "backdate 1 90000", "dump 1", "http@0 POST av hyph=latest:1 hyph=1 history b:4", "dump 1",
                    "backdate 1 180000", "dump 1", "http@0 POST av hyph=latest:1 hyph=1 history b:5", "dump 1", "kill"]
            out.append(Case(f"c12-bin-{j}", ops, {"cfg": [d, v], "http": True, "only": "sqlite"}, mode="bin")); k += 1
        # another instance (another replica's request) stores a snapshot for the latest version right before the
        # N-th transaction of an add-version request begins (N = 0, 1, 2): the urgency the request is told is the
        # one of the record it was accepted against
        for k3 in range(sizes(tier, 9, 27)):
            nth, d, v = k3 % 3, [14, 14, 1][k3 // 3 % 3], [100, 2, 3][k3 // 3 % 3]
            ops = [f"cfg {d} {v}", "http POST av hyph=nil hyph=1 history b:1", "http POST av hyph=latest:1 hyph=1 history b:2", "http POST av hyph=latest:1 hyph=1 history b:3"]
            if k3 % 2:
                ops += ["http POST as hyph=anc:1:2 hyph=1 snapshot b:8", "backdate 1 4000000"]
            ops += [f"intrude {nth} 1 snap latest:1 b:9,{k3}", f"http POST av hyph=latest:1 hyph=1 history b:4,{k3}", "dump 1",
                    "http POST av hyph=latest:1 hyph=1 history b:5", "dump 1"]
            out.append(Case(f"c12-intrude-{k3}", ops, {"cfg": [d, v], "http": True, "intrude": True}, mode="http"))
            if nth == 0:
                # ... and right AFTER the request's transaction has committed: the urgency told is still the one of the record
                # the version was accepted against (the snapshot came later)
                ops2 = ops[:ops.index(f"intrude {nth} 1 snap latest:1 b:9,{k3}")] + [f"intrudeafter 0 1 snap stored b:9,{k3}", f"http POST av hyph=latest:1 hyph=1 history b:4,{k3}", "dump 1",
                        "http POST av hyph=latest:1 hyph=1 history b:5", "dump 1"]
                out.append(Case(f"c12-intrudeafter-{k3}", ops2, {"cfg": [d, v], "http": True, "only": "sqlite"}, mode="http"))
        # a data directory written by the pinned release: the age and the counter of a snapshot IT stored are
        # what the urgency of the next accepted versions is computed from
        def tail(name, c, nacc, snap, o):
            return [f"av {c} latest:{c} b:1,1", f"dump {c}", f"av {c} latest:{c} b:1,2", f"av {o} latest:{o} b:1,3", "reopen", f"av {c} latest:{c} b:1,4"]
        out += fixture_cases("c12", rng, sizes(tier, 7, 28), tail)
        # counters produced by real histories, default and small targets
        nh = sizes(tier, 90, 400)
        for j in range(nh):
            d, v = rng.choice([(14, 100), (1, 3), (2, 5), (0, 1), (3, 2), (14, 7)])
            ops = [f"cfg {d} {v}"]
            g = HistGen(rng, 2, False, True, True)
            for _ in range(rng.randint(10, sizes(tier, 50, 150))):
                step = g.op()
                for line in step:
                    if line.startswith("av "):
                        c = line.split()[1]
                        ops += [f"dump {c}", line, f"dump {c}"]
                    elif line.startswith("as "):
                        c = line.split()[1]
                        ops += [f"dump {c}", line, f"dump {c}"]
                    else:
                        ops.append(line)
            out.append(Case(f"c12-hist-{j}", ops, {"cfg": [d, v]}))
        return out
    def relevant(self, i, trace):
        o, ri, rm = trace[i]
        if o.startswith("http "):
            from .props_http import HOp, HResp
            if HOp(o).route != "av":
                return False
            a, b = HResp(ri), HResp(rm)
            return b.status == 200 and (a.status != 200 or a.xs != b.xs)
        op = Op(o)
        if op.kind == "av":
            if resp_kind(rm) == "added" and resp_kind(ri) == "added":
                return added_urgency(ri) != added_urgency(rm)
            return resp_kind(rm) == "added" and resp_kind(ri) in ("panic", "error")
        if op.kind == "dump":
            a, b = Dump(ri), Dump(rm)
            return a.ok and b.ok and a.snap is not None and b.snap is not None and a.snap[2] != b.snap[2] and a.snap[0] == b.snap[0]
        return False
    def oracle(self, case, trace, backend):
        fails = []
        d, v = case.meta.get("cfg", [14, 100])
        count = {}
        if case.meta.get("http"):
            trace = http_as_lib(trace)
        fx = fixture_snaps().get(case.meta.get("fixture"), None) if case.meta.get("fixture") else None
        since_fixture, loaded = {}, False
        for i, (o, ri, rm) in enumerate(trace):
            op = Op(o)
            if op.kind == "cfg":
                d, v = op.days, op.versions
            if o.startswith("mark fixture-loaded"):
                loaded = True
            if fx is not None and loaded and op.kind in ("as", "setcounter", "backdate"):
                fx = None
            if fx is not None and loaded and op.kind == "av" and resp_kind(ri) == "added" and str(op.c) in fx:
                # the record the PINNED release reported for this client, plus the versions accepted since
                s0 = fx[str(op.c)]
                n0 = since_fixture.get(op.c, 0)
                rec = None if s0 is None else (s0[0], s0[1], s0[2] + n0)
                want, want2 = spec_urgency(d, v, rec, op.now), spec_urgency(d, v, rec, op.now + 3)
                if added_urgency(ri) not in (want, want2):
                    fails.append(f"op {i}: urgency {added_urgency(ri)}, expected {want}: the pinned release stored snapshot record {s0} for client {op.c} "
                                 f"(fixture `{case.meta['fixture']}`), {n0} versions were accepted since, targets days={d} versions={v}, now {op.now}")
                since_fixture[op.c] = n0 + 1
            if case.meta.get("intrude") and op.kind == "av" and resp_kind(ri) == "added" and i > 0 and trace[i - 1][0].startswith(f"as {op.c} "):
                # the snapshot the other instance stored just before: the version was accepted against THAT record
                a_s = Op(trace[i - 1][0])
                if resp_kind(trace[i - 1][1]) == "snapack":
                    rec = (a_s.v, a_s.now, 0)
                    want, want2 = spec_urgency(d, v, rec, op.now), spec_urgency(d, v, rec, op.now + 3)
                    if added_urgency(ri) not in (want, want2):
                        fails.append(f"op {i}: urgency {added_urgency(ri)}, expected {want}: a snapshot for version {a_s.v} was stored (by another instance) before this "
                                     f"version was accepted — the record it was accepted against is {rec}, targets days={d} versions={v}")
            if op.kind == "av" and i > 0 and trace[i - 1][0].startswith(f"dump {op.c} "):
                before = Dump(trace[i - 1][1])
                if resp_kind(ri) == "panic":
                    fails.append(f"op {i}: add_version panicked with targets days={d} versions={v}")
                if resp_kind(ri) == "added" and before.ok and not before.absent:
                    want = spec_urgency(d, v, before.snap, op.now)
                    # the implementation reads its clock up to a second or two after the harness
                    want2 = spec_urgency(d, v, before.snap, op.now + 3)
                    got = added_urgency(ri)
                    if got not in (want, want2):
                        fails.append(f"op {i}: urgency {got}, expected {want} (targets days={d} versions={v}, snapshot {before.snap}, now {op.now})")
                    if i + 1 < len(trace) and trace[i + 1][0].startswith(f"dump {op.c} "):
                        after = Dump(trace[i + 1][1])
                        if before.snap is not None and after.ok and after.snap is not None and after.snap[2] != before.snap[2] + 1:
                            fails.append(f"op {i}: counter {before.snap[2]} -> {after.snap[2]} after an accepted version")
            # the counter equals the number of versions accepted since the snapshot was stored
            if op.kind == "av" and resp_kind(ri) == "added" and op.c in count:
                count[op.c] += 1
            if op.kind == "setcounter" and resp_kind(ri) == "unit" and op.c in count:
                count[op.c] = op.arg
            if op.kind == "as":
                bracketed = 0 < i and i + 1 < len(trace) and trace[i + 1][0].startswith(f"dump {op.c} ") and trace[i - 1][0].startswith(f"dump {op.c} ")
                if bracketed:
                    before, after = Dump(trace[i - 1][1]), Dump(trace[i + 1][1])
                    if before.ok and after.ok and after.snap is not None and (before.snap is None or before.snap[:2] != after.snap[:2] or before.data != after.data):
                        count[op.c] = 0       # the stored snapshot was replaced by this upload
                else:
                    # the grid cases: an upload for the latest version right after it was added is always
                    # accepted unless it is the current snapshot version already
                    after = Dump(trace[i + 1][1]) if i + 1 < len(trace) and trace[i + 1][0].startswith(f"dump {op.c} ") else None
                    if after is not None and after.ok and after.snap is not None and after.snap[0] == op.v and after.snap[2] == 0 and after.data == op.data:
                        count[op.c] = 0
                    else:
                        count.pop(op.c, None)
            if op.kind in ("backdate",) and False:
                pass
            if op.kind == "dump" and op.c in count:
                dd = Dump(ri)
                if dd.ok and dd.snap is not None and dd.snap[2] != count[op.c]:
                    fails.append(f"op {i}: counter is {dd.snap[2]}, {count[op.c]} versions were accepted since the snapshot was stored")
                    count.pop(op.c)
        return fails
    def nontrivial(self, case, trace):
        return True


# ------------------------------------------------------------------ C09
def foreign_chain_cases(prefix, rng, n, tail):
    """client 2 starts its chain on a version that belongs to client 1 and then quotes client 1's
    older versions (snapshots, lookups): nothing of client 1 may leak into or affect client 2"""
    out = []
    for k in range(n):
        la = rng.randint(3, 7)
        ops = ["ensure 1"] + [f"av 1 {'nil' if i == 0 else 'latest:1'} b:1,{i}" for i in range(la)]
        j = rng.randint(1, la - 1)
        both_snap = k % 2 == 1
        if both_snap:
            # client 1 itself holds a snapshot at the very version client 2 will start from and
            # snapshot: two clients with the SAME snapshot version id, different bytes
            j = rng.randint(max(1, la - 4), la - 1)
            ops += [f"as 1 ver:1:{j} b:6,6,{k % 200}", "gs 1"]
        ops += ["ensure 2", f"av 2 ver:1:{j} b:2,0"]
        for _ in range(rng.randint(0, 2)):
            ops.append("av 2 latest:2 b:2,9")
        # older versions of client 1 first (an upload for the base itself is the corner C10 leaves open)
        for i in list(range(j - 1, -1, -1)) + [j]:
            ops += [f"as 2 ver:1:{i} b:7,{i}", "gs 2", f"gcv 2 ver:1:{i}"]
        if both_snap:
            ops += ["gs 1", "gs 2"]
        ops += [f"as 1 ver:2:0 b:8", "gs 1", "gcv 1 ver:2:0", "av 1 latest:1 b:1,99", "av 2 latest:2 b:2,99"]
        ops += tail
        out.append(Case(f"{prefix}-foreign-{k}", ops, {"nclients": 2}))
    return out


def renumber(pairs):
    """renumber every id in a sequence of (op, response) lines by first appearance (nil stays 0);
    clock readings are dropped"""
    m = {0: 0}
    def f(x):
        x = int(x)
        if x not in m:
            m[x] = len(m)
        return str(m[x])
    out = []
    for o, r in pairs:
        t = o.split()
        k = t[0]
        if k == "av":
            os_ = f"av {f(t[1])} {f(t[2])} {t[5]}"
            fresh = t[3]
        elif k == "gcv":
            os_ = f"gcv {f(t[1])} {f(t[2])}"
        elif k == "as":
            os_ = f"as {f(t[1])} {f(t[2])} {t[4]}"
        elif k in ("gs", "ensure"):
            os_ = f"{k} {f(t[1])}"
        elif k in ("backdate", "setcounter"):
            os_ = f"{k} {f(t[1])} {t[2]}"
        else:
            os_ = k
        rt = r.split()
        if rt and rt[0] == "added":
            rs = f"added {f(rt[1])} {rt[2]}"
        elif rt and rt[0] == "conflict":
            rs = f"conflict {f(rt[1])}"
        elif rt and rt[0] == "found":
            a, b, d = rt[1].split(":", 2)
            rs = f"found {f(a)}:{f(b)}:{d}"
        elif rt and rt[0] == "snap":
            rs = f"snap {f(rt[1])} {rt[2]}"
        else:
            rs = r
        out.append(os_ + " => " + rs)
    return out


class C09(L1Prop):
    id = "C09"
    overlap = True
    rule = ("multi-client histories (2-4 clients, >=30% of id arguments foreign: other clients' version ids, snapshot "
            "versions, client ids); for every client the projection of the history onto that client is re-run alone on "
            "a fresh real backend and compared response by response (two-run non-interference); non-trivial = the "
            "client quoted >=1 foreign id and another client was active in between")
    def cases(self, rng, tier):
        n, length = sizes(tier, (200, 40), (900, 140))
        out = []
        for k in range(n):
            nc = rng.choice([2, 3, 4])
            ops, g = rand_prefix(rng, rng.randint(10, length), nc, True, False, True)
            if k % 3 == 1:
                # small snapshot targets: a counter or a clock shared between clients would change an urgency
                ops = [f"cfg {rng.choice([14, 1, 2])} {rng.choice([1, 2, 3])}"] + ops
            out.append(Case(f"c09-{k}", ops, {"nclients": nc}))
        out += foreign_chain_cases("c09", rng, sizes(tier, 10, 100), [])
        # several clients reach the low-urgency band at the same time: what each is told depends on its own
        # snapshot alone
        for k in range(sizes(tier, 6, 30)):
            v = rng.choice([4, 6])
            ops = [f"cfg 14 {v}"]
            for c in (1, 2, 3):
                ops += [f"ensure {c}", f"av {c} nil b:{c}", f"av {c} latest:{c} b:{c},1", f"as {c} latest:{c} b:9,{c}"]
            order = [c for c in (1, 2, 3) for _ in range(v + 2)]
            rng.shuffle(order)
            ops += [f"av {c} latest:{c} b:{j % 250},{c}" for j, c in enumerate(order)]
            out.append(Case(f"c09-low-{k}", ops, {"nclients": 3}))
        # a request of one client fails between its write and its commit; the next requests are another
        # client's; after a restart the first client is where it would be had the others never existed
        for k in range(sizes(tier, 6, 30)):
            ops = []
            for c in (1, 2):
                ops += [f"ensure {c}", f"av {c} nil b:{c}", f"av {c} latest:{c} b:{c},1"]
            for j in range(rng.randint(1, 3)):
                a, b = rng.choice([(1, 2), (2, 1)])
                ops += [f"fault {rng.choice(['3:before', '2:after'])}", f"av {a} latest:{a} b:66,{j}", f"av {b} latest:{b} b:5,{j}",
                        f"fault 3:before", f"as {a} latest:{a} b:67,{j}", f"as {b} latest:{b} b:6,{j}", "reopen",
                        f"gcv {a} latest:{a}", f"gcv {a} anc:{a}:1", f"gs {a}", f"av {a} latest:{a} b:7,{j}", f"gs {b}"]
            out.append(Case(f"c09-fault-{k}", ops, {"nclients": 2, "only": "sqlite", "faults": True}))
        # uploads of different clients interleaved chunk by chunk on one worker: nobody's bytes end up
        # under another client id
        from .props_http import interleaved_upload_cases
        out += interleaved_upload_cases("c09", rng, sizes(tier, 12, 100))
        # clients the server has never seen, whose ids share one half / all but one bit / the reversed bytes with client 1's id,
        # ask for their history and snapshot between client 1's requests; and the other client uploads 64 MiB and more
        for k in range(sizes(tier, 6, 24)):
            near = 2010 + k % 6
            ops = ["ensure 1", "av 1 nil b:1", "av 1 latest:1 b:2", "as 1 latest:1 b:9"]
            for step in range(3):
                ops += [f"gcv {near} nil", f"gs {near}", f"gcv {near} latest:1", "gcv 1 anc:1:1", "gs 1", f"av 1 latest:1 b:3,{step}", f"gcv {near} nil", "gcv 1 nil", "gs 1",
                        f"as {near} latest:1 b:8", "gcv 1 latest:1"]
            out.append(Case(f"c09-near-{k}", ops, {"nclients": 2}))
        for k in range(sizes(tier, 1, 3)):
            nb = [67108864, 83886080, 104857600][k]
            ops = ["ensure 1", "ensure 2", "av 1 nil b:1", "av 2 nil b:2", f"av 2 latest:2 z:{nb}:5", "av 1 latest:1 b:3", "gcv 1 nil", f"as 2 latest:2 z:{nb}:6", "av 1 latest:1 b:4",
                   "as 1 latest:1 b:9", "gs 1", "gcv 1 anc:1:1"]
            out.append(Case(f"c09-huge-{k}", ops, {"nclients": 2, "huge": True}))
        # over HTTP, two-run: client 1's requests with client 2 active in between — quoting client 1's version ids
        # in its own uploads (also BEFORE client 1 uses them), breaking off large uploads (hundreds of megabytes in
        # total), being refused in every way — and client 1's requests alone
        for k in range(sizes(tier, 8, 40)):
            n = 2 + k % 3
            ops = ["http POST av hyph=nil hyph=1 history b:1,1"] + [f"http POST av hyph=latest:1 hyph=1 history b:1,{i}" for i in range(n)]
            ops += ["http POST av hyph=nil hyph=2 history b:2,2"]
            kind = k % 4
            if kind == 0:
                # the other client uploads a snapshot NAMING client 1's versions, before client 1 does
                ops += ["http POST as hyph=latest:1 hyph=2 snapshot b:7,7", "http POST as hyph=anc:1:1 hyph=2 snapshot b:7,8", "http GET gcv hyph=latest:1 hyph=2 absent e",
                        "http GET gcv hyph=anc:1:1 hyph=2 absent e"]
            elif kind == 1:
                # the other client's uploads break off part-way, again and again, in sizes from tens of megabytes down
                # to kilobytes (whatever is accounted per upload and not given back adds up, to within a few kilobytes
                # of any total below 384 MB — 1.5 GB in the thorough tier)
                rep = 3 if tier != "thorough" else 12
                j = 0
                for sz in [64 << 20, 32 << 20, 16 << 20, 8 << 20, 4 << 20, 2 << 20, 1 << 20, 512 << 10, 256 << 10, 128 << 10, 64 << 10, 32 << 10, 16 << 10]:
                    for _ in range(rep if k == 1 else 1):
                        ops.append(f"http POST {'av' if j % 2 else 'as'} hyph=latest:2 hyph=2 {'history' if j % 2 else 'snapshot'} brk:{sz}"); j += 1
                ops += ["http POST av hyph=latest:1 hyph=1 history z:131072:3", "http POST as hyph=latest:1 hyph=1 snapshot z:262144:4", "http GET snap - hyph=1 absent e"]
            elif kind == 2:
                ops += ["http POST av hyph=latest:1 hyph=2 history b:2,3", "http POST as hyph=latest:2 hyph=2 snapshot b:7,9", "http POST as hyph=latest:1 hyph=2 snapshot b:7,9"]
            else:
                ops += ["http POST av hyph=latest:2 hyph=2 history e", "http POST as hyph=latest:1 hyph=2 other b:1", "http POST av hyph=latest:1 hyph=2 history b:2,4",
                        "http POST as hyph=latest:1 hyph=2 snapshot brk:9"]
            ops += ["http POST as hyph=latest:1 hyph=1 snapshot b:9,1", "http GET snap - hyph=1 absent e", "http POST av hyph=latest:1 hyph=1 history b:1,9",
                    "http POST as hyph=anc:1:1 hyph=1 snapshot b:9,2", "http GET snap - hyph=1 absent e", "http POST as hyph=latest:1 hyph=1 snapshot b:9,3",
                    "http GET snap - hyph=1 absent e", "http GET gcv hyph=anc:1:1 hyph=1 absent e", "http GET gcv hyph=latest:1 hyph=1 absent e",
                    "http GET gcv hyph=latest:2 hyph=1 absent e", "http POST av hyph=latest:1 hyph=1 history b:1,10"]
            out.append(Case(f"c09-hx-{k}", ops, {"http": True, "hx": True}, mode="http"))
        # the real executable, several clients taking turns on ONE persistent connection (a pooling
        # reverse proxy): each request is served under the client id IT carries
        for k in range(sizes(tier, 2, 12)):
            ops = ["boot listen=flag:1 dir=flag allow=none versions=default days=default"]
            order = [1, 2, 1, 3, 2, 3, 1]
            rng.shuffle(order)
            for j, c in enumerate(order):
                ops.append(f"httpk@0 POST av hyph=latest:{c} hyph={c} history b:{c},{c},{j}")
                o2 = rng.choice([x for x in (1, 2, 3) if x != c])
                ops += [f"httpk@0 GET gcv hyph=nil hyph={o2} absent e", f"httpk@0 GET snap - hyph={o2} absent e"]
                if rng.random() < 0.5:
                    ops.append(f"httpk@0 POST as hyph=latest:{c} hyph={c} snapshot b:9,{c}")
            ops += [f"httpk@0 GET gcv hyph=nil hyph={c} absent e" for c in (1, 2, 3)] + ["kill"]
            out.append(Case(f"c09-conn-{k}", ops, {"http": True, "only": "sqlite", "conn": True}, mode="bin"))
        return out
    def relevant(self, i, trace):
        # a divergence on a request that quotes an id stored for another client
        o, ri, rm = trace[i]
        if o.startswith("http "):
            from .props_http import C06
            return C06().relevant(i, trace)
        op = Op(o)
        if op.kind not in ("av", "gcv", "as"):
            return False
        arg = op.p if op.kind in ("av", "gcv") else op.v
        owner = {}
        for (o2, r2, _) in trace[:i]:
            op2 = Op(o2)
            if op2.kind == "av" and resp_kind(r2) == "added":
                owner[added_id(r2)] = op2.c
        return arg in owner and owner[arg] != op.c
    def oracle(self, case, trace, backend):
        if case.meta.get("conn"):
            from .props_http import HOp, HResp
            fails, mine = [], {}
            for i, (o, ri, rm) in enumerate(trace):
                if not o.startswith("http "):
                    continue
                h, r = HOp(o), HResp(ri)
                if h.route == "av" and r.status == 200 and r.xv.isdigit():
                    mine.setdefault(h.cid, set()).add(r.xv)
                if h.route in ("gcv", "snap") and r.status == 200 and r.xv.isdigit() and r.xv not in mine.get(h.cid, set()):
                    fails.append(f"op {i}: client {h.cid} was shown version {r.xv}, which belongs to another client (requests of several clients on one connection)")
                if h.route == "av" and r.status == 409 and r.xp.isdigit() and r.xp not in mine.get(h.cid, set()):
                    fails.append(f"op {i}: client {h.cid} was told the latest version is {r.xp}, which belongs to another client")
            return fails
        if case.meta.get("huge"):
            # every request of client 1 is an ordinary one on its own small history: each is served
            return [f"op {i} `{o[:60]}` of client 1 was answered `{ri[:40]}` after the other client's large upload"
                    for i, (o, ri, rm) in enumerate(trace) if Op(o).kind in ("av", "gcv", "as", "gs") and Op(o).c == 1 and resp_kind(ri) in ("error", "panic", "noclient")]
        if case.meta.get("hx"):
            return []
        if case.meta.get("http"):
            from .props_http import C06
            return [m + " (uploads of several clients interleaved on one worker)" for m in C06().oracle(case, trace, backend)]
        return []
    def derive(self, case, trace, backend):
        """one solo case per client: its own requests, foreign ids replaced by arbitrary fixed ids"""
        if case.meta.get("huge"):
            return []        # (payloads of this size are known to the trace by a token only: no solo re-run; see the oracle)
        if case.meta.get("hx"):
            # client 1 alone: its own requests; ids of the other client become arbitrary fixed ids
            import re as _re
            ops = []
            for o in case.ops:
                t = o.split()
                if t[0] == "http" and t[4] == "hyph=1":
                    t[3] = _re.sub(r"=(latest|anc|ver|base):2(:\d+)?$", lambda m: "=$o" + (m.group(2) or "").replace(":", "_"), t[3])
                    ops.append(" ".join(t))
            return [(Case(f"{case.name}-solo1", ops, {"http": True}, mode="http"), 1)]
        if case.meta.get("http") or case.meta.get("overlap") or case.mode != "lib":
            return []
        out = []
        clients = sorted({Op(o).c for o, _, _ in trace if Op(o).kind in ("av", "gcv", "as", "gs", "ensure", "backdate", "setcounter")})
        for c in clients:
            mine, ops = [], []
            def spec(n):
                if n == 0: return "nil"
                if n in mine: return f"ver:1:{mine.index(n)}"
                if n == c: return "client:1"
                return f"${n}"
            pending_fault = None
            for (o, ri, rm) in trace:
                if o.startswith("fault "):
                    pending_fault = o; continue
                if o.startswith("mark fired"):
                    continue
                op = Op(o)
                if o.split()[0] == "reopen":
                    ops.append("reopen"); continue
                if op.c != c or op.kind == "dump":
                    if op.kind in ("av", "gcv", "as", "gs", "ensure"):
                        pending_fault = None
                    continue
                if pending_fault:
                    ops.append(pending_fault); pending_fault = None
                t = o.split()
                pl = lambda d: "e" if d == "-" else "b:" + d
                if op.kind == "av":
                    ops.append(f"av 1 {spec(op.p)} {pl(op.data)}")
                    if resp_kind(ri) == "added":
                        mine.append(added_id(ri))
                elif op.kind == "gcv":
                    ops.append(f"gcv 1 {spec(op.p)}")
                elif op.kind == "as":
                    ops.append(f"as 1 {spec(op.v)} {pl(op.data)}")
                elif op.kind in ("gs", "ensure"):
                    ops.append(f"{op.kind} 1")
                elif op.kind in ("backdate", "setcounter"):
                    ops.append(f"{op.kind} 1 {op.arg}")
            if ops:
                out.append((Case(f"{case.name}-solo{c}", [o for o in case.ops if o.startswith("cfg ")] + ops), c))
        return out
    def compare_derived(self, case, trace, c, solo_trace, backend):
        if case.meta.get("hx"):
            from .props_http import HOp, HResp
            def proj(tr):
                m, out = {"0": "0", "-": "-"}, []
                def f(x):
                    if not x.isdigit(): return x
                    if x not in m: m[x] = str(len(m))
                    return m[x]
                cid = None
                for (o, ri, _) in tr:
                    if not o.startswith("http "):
                        continue
                    h, r = HOp(o), HResp(ri)
                    if cid is None:
                        cid = h.cid          # the first request of the case is client 1's
                    if h.cid != cid:
                        continue
                    out.append((h.meth, h.route, f(h.seg), r.status, f(r.xv), f(r.xp), r.xs, r.ct, r.body))
                return out
            a, b = proj(trace), proj(solo_trace)
            for j, (x, y) in enumerate(zip(a, b)):
                if x != y:
                    return [f"{backend}: client 1, its request #{j} over HTTP: with the other client active `{x}`, alone `{y}`"]
            if len(a) != len(b):
                return [f"{backend}: client 1: {len(a)} responses with the other client active, {len(b)} alone"]
            return []
        kinds = ("av", "gcv", "as", "gs", "ensure", "backdate", "setcounter")
        multi = [(o, ri) for (o, ri, _) in trace if Op(o).c == c and Op(o).kind in kinds]
        solo = [(o, ri) for (o, ri, _) in solo_trace if Op(o).kind in kinds]
        a, b = renumber(multi), renumber(solo)
        for j, (x, y) in enumerate(zip(a, b)):
            if x != y:
                return [f"{backend}: client {c}, its request #{j}: with other clients present `{x}`, alone `{y}`"]
        if len(a) != len(b):
            return [f"{backend}: client {c}: {len(a)} responses with others present, {len(b)} alone"]
        return []
    def nontrivial(self, case, trace):
        owner, foreign = {}, False
        for (o, ri, _) in trace:
            op = Op(o)
            if op.kind == "av" and resp_kind(ri) == "added":
                owner[added_id(ri)] = op.c
            arg = getattr(op, "p", None) if op.kind in ("av", "gcv") else getattr(op, "v", None)
            if arg in owner and owner[arg] != op.c:
                foreign = True
        return foreign


# ------------------------------------------------------------------ snapshot rule (C10/C11/C18)
def chain_info(acc):
    """acc = [(id, parent, data)] in acceptance order -> (window newest first, base)"""
    ids = [a[0] for a in acc]
    base = acc[0][1] if acc else 0
    return list(reversed(ids))[:5], base


def rule_accepts(window, base, snap, v):
    """the property's rule; None = the corner the property leaves open (v = non-nil chain base)"""
    if v == 0 or v == snap:
        return False
    if v in window:
        for w in window:
            if w == v:
                return True
            if w == snap:
                return False
    if v == base and base != 0 and v not in window:
        return None
    return False


def dump_chain(d):
    """(window, base) from a dump, walking get_version results back from latest"""
    ids, stop = d.chain_back()
    return ids[:5], (stop if len(ids) == len(d.chain_back()[0]) else stop)


class C10(L1Prop):
    id = "C10"
    overlap = True
    rule = ("exhaustive small scope: chain length 0..N x chain base nil/non-nil x existing snapshot at none / each "
            "position x requested version in {nil, each position, base, fresh, foreign, current snapshot}, each with a dump "
            "before and after and a GetSnapshot after; plus random long histories; non-trivial = the decision depends on "
            "the window or on the existing snapshot (chain >= 2)")
    def cases(self, rng, tier):
        out = []
        maxn = sizes(tier, 7, 9)
        k = 0
        for n in range(0, maxn + 1):
            for base_nonnil in (False, True):
                for spos in [None] + list(range(1, n + 1)):
                    targets = ["nil", "base:1", "fresh", "latest:2", "snap:1"] + [f"anc:1:{j}" for j in range(0, n)]
                    for tgt in targets:
                        ops = ["ensure 2", "av 2 nil b:7", "ensure 1"]
                        for i in range(1, n + 1):
                            par = ("fresh" if base_nonnil else "nil") if i == 1 else "latest:1"
                            ops.append(f"av 1 {par} b:{i}")
                            if spos == i:
                                ops.append(f"as 1 latest:1 b:100,{i}")
                        ops += ["dump 1", f"as 1 {tgt} b:200", "dump 1", "gs 1"]
                        out.append(Case(f"c10-x-{k}", ops)); k += 1
        # the existing snapshot was stored for a version that was NOT the latest at the time (another
        # replica had added d1 versions meanwhile), k more versions follow, then a second upload for
        # every position: the versions-since counter (k) and the distance from the latest (k + d1) differ
        for n1 in range(2, sizes(tier, 6, 8) + 1):
            for d1 in range(1, min(4, n1 - 1) + 1):
                for kk in range(0, 4):
                    for t in range(0, n1 + kk):
                        ops = ["ensure 1"] + [f"av 1 {'nil' if i == 0 else 'latest:1'} b:{i}" for i in range(n1)]
                        ops.append(f"as 1 ver:1:{n1 - 1 - d1} b:100,{d1}")
                        ops += [f"av 1 latest:1 b:{n1 + i}" for i in range(kk)]
                        ops += ["dump 1", f"as 1 ver:1:{t} b:200,{t}", "dump 1", "gs 1"]
                        out.append(Case(f"c10-late-{k}", ops)); k += 1
        # a version row that cannot be read while the server walks back from the latest version: the
        # upload may be answered with an error, it must never be ACCEPTED without having been validated
        for n in range(3, sizes(tier, 7, 9)):
            for spos in range(0, n - 1):
                for dmg in range(0, min(3, n - 1 - spos)):            # damaged row: dmg versions behind the latest
                    for t in range(0, n):
                        # the damaged row is read only if the walk gets that far: it stops at the requested
                        # version, at the existing snapshot and after four steps
                        dt, ds = n - 1 - t, n - 1 - spos
                        if not (dmg < dt and dmg < ds and dmg < 4 and t != spos):
                            continue
                        ops = ["ensure 1"] + [f"av 1 {'nil' if i == 0 else 'latest:1'} b:{i}" for i in range(spos + 1)]
                        ops.append("as 1 latest:1 b:100")
                        ops += [f"av 1 latest:1 b:{i}" for i in range(spos + 1, n)]
                        ops += ["dump 1", f"rowfault anc:1:{dmg} {2 + dmg}", f"as 1 ver:1:{t} b:200,{t}", "dump 1", "gs 1"]
                        out.append(Case(f"c10-rowfault-{k}", ops, {"only": "sqlite", "faults": True})); k += 1
        # acceptance depends on the version alone: uploads whose content is empty (the library accepts them), one byte, megabytes
        for k2 in range(sizes(tier, 4, 12)):
            n = 3 + k2 % 3
            ops = ["ensure 1"] + [f"av 1 {'nil' if i == 0 else 'latest:1'} b:{i}" for i in range(n)]
            for back, pl in ((2, "e"), (1, ["e", "b:0", "z:1048576:3", "b:7"][k2 % 4]), (0, "e"), (0, "b:1")):
                ops += ["dump 1", f"as 1 anc:1:{back} {pl}", "dump 1", "gs 1"]
            ops += ["av 1 latest:1 b:9", "dump 1", "as 1 latest:1 e", "dump 1", "gs 1", "reopen", "gs 1"]
            out.append(Case(f"c10-content-{k2}", ops))
        # a storage step of an ACCEPTABLE upload fails (the write of the snapshot, the commit): the client is
        # told so — or the snapshot is replaced; never "success" with the old snapshot still in place
        for k2 in range(sizes(tier, 6, 24)):
            n = 3 + k2 % 4
            ops = ["ensure 1"] + [f"av 1 {'nil' if i == 0 else 'latest:1'} b:{i}" for i in range(n)]
            if k2 % 2:
                ops += ["as 1 anc:1:2 b:100"]
            for back in (1, 0):
                for idx in range(2, 6):
                    ops += ["dump 1", f"fault {idx}:before", f"as 1 anc:1:{back} b:200,{back},{idx}", "dump 1", "gs 1"]
                ops += ["dump 1", f"as 1 anc:1:{back} b:201,{back}", "dump 1", "gs 1"]
            out.append(Case(f"c10-storefault-{k2}", ops, {"only": "sqlite", "faults": True}))
        nh, length = sizes(tier, (120, 60), (800, 300))
        for j in range(nh):
            g = HistGen(rng, 2, False, True, False)
            ops = []
            for _ in range(rng.randint(10, length)):
                for line in g.op():
                    if line.startswith("as "):
                        c = line.split()[1]
                        ops += [f"dump {c}", line, f"dump {c}", f"gs {c}"]
                    else:
                        ops.append(line)
            out.append(Case(f"c10-h-{j}", ops))
        # through the HTTP entry point: every requested version, the nil id included, is answered 200
        for n in range(0, 4):
            for spos in (None, n):
                if spos == 0:
                    continue
                ops = ["http POST av hyph=nil hyph=2 history b:7"] + [f"http POST av hyph={'nil' if i == 0 else 'latest:1'} hyph=1 history b:{i}" for i in range(n)]
                if spos:
                    ops.append(f"http POST as hyph=latest:1 hyph=1 snapshot b:100,{n}")
                for tgt in ["nil", "fresh", "latest:2"] + [f"anc:1:{j}" for j in range(n)]:
                    ops += ["dump 1", f"http POST as hyph={tgt} hyph=1 snapshot b:200,{n}", "dump 1"]
                out.append(Case(f"c10-http-{n}-{spos}", ops, {"http": True}, mode="http"))
        # through the HTTP entry point with snapshot bodies of hundreds of kilobytes to megabytes (acceptance does not
        # depend on the size of what is uploaded)
        for j, nb in enumerate([262145, 300000, 1048577, 3000000]):
            ops = ["http POST av hyph=nil hyph=1 history b:1", "http POST av hyph=latest:1 hyph=1 history b:2", "http POST av hyph=latest:1 hyph=1 history b:3",
                   "dump 1", f"http POST as hyph=anc:1:1 hyph=1 snapshot big:{nb}:{1 + j % 2}", "dump 1", "dump 1", f"http POST as hyph=latest:1 hyph=1 snapshot big:{nb + 7}:2", "dump 1",
                   "dump 1", "http POST as hyph=anc:1:2 hyph=1 snapshot big:270000:1", "dump 1"]
            out.append(Case(f"c10-httpbig-{j}", ops, {"http": True}, mode="http"))
        # the stored snapshot carries a time AHEAD of the server's clock (stored while the clock ran fast, or
        # on another host): acceptance depends on chain positions only
        for n in (3, 6):
            for ahead in (3600, 3 * 86400):
                ops = ["ensure 1"] + [f"av 1 {'nil' if i == 0 else 'latest:1'} b:{i}" for i in range(n)]
                ops += ["as 1 anc:1:2 b:100", f"backdate 1 {-ahead}", "dump 1", "as 1 anc:1:1 b:101", "dump 1", "gs 1",
                        "av 1 latest:1 b:9", f"backdate 1 {-ahead}", "dump 1", "as 1 latest:1 b:102", "dump 1", "gs 1", "reopen", "gs 1"]
                out.append(Case(f"c10-ahead-{n}-{ahead}", ops))
        # the window is the five most recent versions WHATEVER the configured snapshot targets are
        for j, (d, v) in enumerate([(14, 0), (14, 1), (14, 2), (14, 3), (14, 4), (14, 5), (14, 2 ** 31), (14, 3000000000), (14, U32MAX), (0, 100), (1, 100), (I64MAX, 100)]):
            for n in (6, 3):
                ops = [f"cfg {d} {v}", "ensure 1"] + [f"av 1 {'nil' if i == 0 else 'latest:1'} b:{i}" for i in range(n)]
                for back in range(n, -1, -1):        # oldest first: each accepted upload is newer than the one before
                    ops += ["dump 1", f"as 1 anc:1:{back} b:8,{back}", "dump 1", "gs 1"]
                out.append(Case(f"c10-cfg-{j}-{n}", ops, {"cfg": [d, v]}))
        def tail(name, c, nacc, snap, o):
            ops = []
            for j, spec in enumerate([f"anc:{c}:1", f"latest:{c}", f"anc:{c}:2", f"anc:{c}:6", "nil", f"latest:{o}"]):
                ops += [f"dump {c}", f"as {c} {spec} b:8,{j}", f"dump {c}", f"gs {c}"]
                if j == 1:
                    ops += [f"av {c} latest:{c} b:1,1", f"av {c} latest:{c} b:1,2"]
            return ops
        out += fixture_cases("c10", rng, sizes(tier, 7, 28), tail)
        return out
    def relevant(self, i, trace):
        o, ri, rm = trace[i]
        op = Op(o)
        if op.kind == "as":
            return True
        if op.kind in ("dump", "gs") and i > 0:
            j = i - 1
            while j > 0 and trace[j][0].split()[0] in ("dump", "gs"):
                j -= 1
            return trace[j][0].startswith("as ")
        return False
    def oracle(self, case, trace, backend):
        fails = []
        # the lines that announce / report an injected fault are not observations of the server
        trace = [t for t in trace if not t[0].startswith(("fault ", "mark fired"))]
        if case.meta.get("http"):
            trace = http_as_lib(trace)
        for i, (o, ri, rm) in enumerate(trace):
            op = Op(o)
            if op.kind != "as" or i == 0 or i + 1 >= len(trace):
                continue
            if not (trace[i - 1][0].startswith(f"dump {op.c} ") and trace[i + 1][0].startswith(f"dump {op.c} ")):
                continue
            b, a = Dump(trace[i - 1][1]), Dump(trace[i + 1][1])
            if not (b.ok and a.ok):
                fails.append(f"op {i}: dump failed around add_snapshot"); continue
            if b.absent:
                if resp_kind(ri) != "noclient":
                    fails.append(f"op {i}: add_snapshot for an unknown client answered {ri}")
                continue
            if case.meta.get("faults") and resp_kind(ri) == "error":
                # the storage step failed and the client was told so: nothing may have changed
                if a.snap != b.snap or a.data != b.data:
                    fails.append(f"op {i}: add_snapshot failed ({ri}) but the stored snapshot changed {b.snap} -> {a.snap}")
                continue
            if resp_kind(ri) != "snapack":
                fails.append(f"op {i}: add_snapshot answered {ri} (the client is told success either way)")
            ids, stop = b.chain_back()
            window, base = ids[:5], stop
            snap = b.snap[0] if b.snap else None
            want = rule_accepts(window, base, snap, op.v)
            changed = (a.snap != b.snap) or (a.data != b.data)
            replaced = a.snap is not None and a.snap[0] == op.v and a.data == op.data and a.snap[2] == 0 and abs(a.snap[1] - op.now) <= 3
            if want is True and not (replaced and (a.snap != b.snap or a.data != b.data or True)):
                fails.append(f"op {i}: snapshot for {op.v} should replace (window {window}, current {snap}) but stored snapshot is {a.snap} data {a.data}")
            if want is False and changed:
                fails.append(f"op {i}: snapshot for {op.v} must be declined (window {window}, base {base}, current {snap}) but stored snapshot changed {b.snap} -> {a.snap}")
            if want is None and changed and not replaced:
                fails.append(f"op {i}: stored snapshot changed to something other than the upload")
            if a.latest != b.latest or a.key(True, b.by_id.keys())[4:] != b.key(True)[4:]:
                fails.append(f"op {i}: add_snapshot changed versions or the latest pointer")
            # moves only forward
            if changed and replaced and snap is not None and snap != op.v:
                order = [base] + list(reversed(ids))
                if snap in order and op.v in order and order.index(op.v) <= order.index(snap):
                    fails.append(f"op {i}: snapshot moved backwards from {snap} to {op.v}")
            if i + 2 < len(trace) and trace[i + 2][0].startswith(f"gs {op.c}"):
                g = trace[i + 2][1]
                want_g = f"snap {a.snap[0]} {a.data}" if a.snap else "nosnap"
                if g != want_g:
                    fails.append(f"op {i}: get_snapshot says `{g}`, client record says `{want_g}`")
        return fails
    def nontrivial(self, case, trace):
        return sum(1 for (o, ri, _) in trace if o.startswith("av ") and resp_kind(ri) == "added") >= 3


class SnapTracker:
    """ghost state from requests and responses only: accepted versions and the most recently
    accepted snapshot upload per client (None = unknown after the open corner)"""
    def __init__(self):
        self.acc, self.snap, self.unknown = {}, {}, {}
    def feed(self, op, ri):
        if op.kind == "av" and resp_kind(ri) == "added":
            self.acc.setdefault(op.c, []).append((added_id(ri), op.p, op.data))
        if op.kind == "as" and resp_kind(ri) == "snapack":
            window, base = chain_info(self.acc.get(op.c, []))
            cur = self.snap.get(op.c)
            w = rule_accepts(window, base, cur[0] if cur else None, op.v)
            if self.unknown.get(op.c):
                w = None
            if w is True:
                self.snap[op.c] = (op.v, op.data); self.unknown[op.c] = None
            elif w is None:
                self.unknown[op.c] = (cur, (op.v, op.data)) if not self.unknown.get(op.c) else "any"
    def expect_gs(self, c):
        if self.unknown.get(c):
            return None
        cur = self.snap.get(c)
        return f"snap {cur[0]} {cur[1]}" if cur else "nosnap"
    def resync(self, c, line):
        t = line.split()
        if t and t[0] == "snap":
            self.snap[c] = (int(t[1]), t[2])
        elif t and t[0] == "nosnap":
            self.snap.pop(c, None)
        self.unknown[c] = None


class C11(L1Prop):
    id = "C11"
    overlap = True
    rule = ("random histories of AddVersion / AddSnapshot (accepted and declined) with, after every operation of a "
            "client, GetSnapshot and a walk of the chain from the returned version id; the expected answer is "
            "recomputed from requests and responses by the acceptance rule; non-trivial = >=2 accepted snapshots and "
            ">=1 declined one")
    def cases(self, rng, tier):
        n, length = sizes(tier, (240, 40), (1200, 160))
        out = []
        for k in range(n):
            nc = rng.choice([1, 2, 3])
            def obs(g, step):
                cs = set()
                for line in step:
                    t = line.split()
                    if t[0] in ("av", "as") and int(t[1]) in g.created:
                        cs.add(int(t[1]))
                return [f"swalk {c}" for c in sorted(cs)]
            ops, g = rand_prefix(rng, rng.randint(8, length), nc, k % 4 == 0, True, False, obs)
            ops += [f"swalk {c}" for c in range(1, nc + 1)]
            out.append(Case(f"c11-{k}", ops))
        out += foreign_chain_cases("c11", rng, sizes(tier, 10, 100), ["swalk 1", "swalk 2"])
        # through the HTTP entry point: uploads that are refused (the body breaks off, is empty, has the
        # wrong type, is too long) never become what GetSnapshot returns; each complete upload for the
        # latest version does
        for k in range(sizes(tier, 12, 100)):
            ops = ["http POST av hyph=nil hyph=1 history b:1"]
            for j in range(rng.randint(3, 8)):
                ops.append("http POST av hyph=latest:1 hyph=1 history b:2")
                r = rng.random()
                if r < 0.45:
                    body = rng.choice([f"b:{j},{k % 250},7", f"chunks:{rng.randint(1, 30)},{rng.randint(1, 30)}", f"r:{rng.randint(65, 900)}"])
                    ops.append(f"http POST as hyph=latest:1 hyph=1 snapshot {body}")
                else:
                    bad = rng.choice([("snapshot", f"brk:{rng.randint(1, 40)}"), ("snapshot", f"brk:{rng.randint(1, 40)},{rng.randint(1, 40)}"),
                                      ("snapshot", "e"), ("other", "b:6"), ("history", "b:6"), ("snapshot-prefix", "b:6")])
                    ops.append(f"http POST as hyph=latest:1 hyph=1 {bad[0]} {bad[1]}")
                ops.append("http GET snap - hyph=1 absent e")
            out.append(Case(f"c11-http-{k}", ops, {"http": True}, mode="http"))
        # snapshot uploads of several clients interleaved chunk by chunk on one worker: id and bytes of
        # what GetSnapshot returns always come from the same upload
        from .props_http import interleaved_upload_cases
        out += interleaved_upload_cases("c11", rng, sizes(tier, 12, 100))
        # snapshots whose content looks like something (compressed streams, a leading zero byte, a length prefix …),
        # accepted, replaced, read back, also after a reopen; large ones of the same kinds too
        from .props_http import content_streams
        import gzip as _gz
        st = content_streams()
        big = bytes(rng.getrandbits(8) for _ in range(5000))
        st.update({"gzip-big": _gz.compress(big, mtime=0), "gzip-long-text": _gz.compress(b"task " * 3000, mtime=0), "zero-big": bytes([0, 0]) + big})
        names = sorted(st)
        per = 6
        for k in range(0, len(names), per):
            ops = ["ensure 1", "av 1 nil b:1"]
            for nm in names[k:k + per]:
                ops += ["av 1 latest:1 b:2", f"as 1 latest:1 b:{','.join(str(x) for x in st[nm])}", "gs 1"]
            ops += ["reopen", "gs 1", "swalk 1"]
            out.append(Case(f"c11-content-{k // per}", ops))
        # a long snapshot replaced by shorter ones whose length is an exact multiple of 1 MiB / 64 KiB / 4 KiB / a page, or
        # nothing at all (through the library): exactly the new bytes come back, none of the old
        MiB = 1048576
        for j, seq in enumerate([[3 * MiB + 5, 2 * MiB, MiB, 5], [2 * MiB + 1, MiB, 65536, 4096], [MiB + 4096, MiB, 0, 7], [5 * 65536 + 3, 65536, 4096, 0]]):
            ops = ["ensure 1", "av 1 nil b:1"]
            for i, nb in enumerate(seq):
                ops += ["av 1 latest:1 b:2", f"as 1 latest:1 {'e' if nb == 0 else 'z:%d:%d' % (nb, i + 1)}", "gs 1"]
            ops += ["reopen", "gs 1"]
            out.append(Case(f"c11-shrink-{j}", ops))
        # two snapshot uploads of ONE client in flight together on one worker, for an older and for a newer
        # version, the older one's body arriving more slowly (and the other way round): whatever the order in
        # which they are handled, what GetSnapshot returns afterwards is the upload for the newer version
        for k in range(sizes(tier, 10, 60)):
            nv = 3 + k % 3
            ops = ["http POST av hyph=nil hyph=1 history b:1"] + [f"http POST av hyph=latest:1 hyph=1 history b:2,{i}" for i in range(nv)]
            if k % 4 == 1:
                ops += ["http POST as hyph=anc:1:2 hyph=1 snapshot b:8,8", "http GET snap - hyph=1 absent e"]
            slow = "chunks:" + ",".join(str(rng.randint(1, 30)) for _ in range(rng.randint(4, 6)))
            fast = "chunks:" + ",".join(str(rng.randint(1, 30)) for _ in range(2))
            older, newer = ("anc:1:1", "latest:1") if k % 3 else ("anc:1:2", "anc:1:1")
            pair = [f"http POST as hyph={older} hyph=1 snapshot {slow if k % 2 == 0 else fast}", f"http POST as hyph={newer} hyph=1 snapshot {fast if k % 2 == 0 else slow}"]
            if k % 5 >= 3:
                pair.reverse()
            ops += ["ileave " + " || ".join(pair), "http GET snap - hyph=1 absent e", "dump 1",
                    "http POST av hyph=latest:1 hyph=1 history b:3", "http GET snap - hyph=1 absent e"]
            out.append(Case(f"c11-pair-{k}", ops, {"http": True}, mode="http"))
        # a storage call fails while GetSnapshot runs: the answer may be an error, never "no snapshot" for a client
        # whose upload was accepted; and an upload whose transaction does not commit is not what GetSnapshot
        # returns afterwards — neither its id nor its bytes
        for k in range(sizes(tier, 6, 30)):
            ops = ["http POST av hyph=nil hyph=1 history b:1", "http POST av hyph=latest:1 hyph=1 history b:2",
                   f"http POST as hyph=latest:1 hyph=1 snapshot b:9,{k}", "http GET snap - hyph=1 absent e"]
            for idx in range(0, 4):
                ops += [f"fault {idx}:before", "http GET snap - hyph=1 absent e"]
            ops += ["http POST av hyph=latest:1 hyph=1 history b:3"]
            for plan in (["3:before", "2:after", "2:before"] if k % 2 else ["2:after", "3:before"]):
                ops += [f"fault {plan}", f"http POST as hyph=latest:1 hyph=1 snapshot b:66,{k}", "http GET snap - hyph=1 absent e"]
            ops += [f"http POST as hyph=latest:1 hyph=1 snapshot b:10,{k}", "http GET snap - hyph=1 absent e", "reopen", "http GET snap - hyph=1 absent e"]
            out.append(Case(f"c11-fault-{k}", ops, {"http": True, "faults": True, "only": "sqlite"}, mode="http"))
        # a snapshot stored by the pinned release, then replaced under this build
        def tail(name, c, nacc, snap, o):
            return [f"gs {c}", f"swalk {c}", f"av {c} latest:{c} b:1,1", f"as {c} latest:{c} r:7000", f"gs {c}", f"av {c} latest:{c} b:1,2",
                    f"as {c} latest:{c} b:5,5", f"gs {c}", f"swalk {c}", "reopen", f"gs {c}", f"gs {o}"]
        out += fixture_cases("c11", rng, sizes(tier, 7, 28), tail)
        return out
    def relevant(self, i, trace):
        o, ri, rm = trace[i]
        if o.startswith("http "):
            from .props_http import HOp, HResp
            if HOp(o).route != "snap":
                return False
            a, b = HResp(ri), HResp(rm)
            return (a.status, a.xv, a.body) != (b.status, b.xv, b.body)
        op = Op(o)
        if op.kind == "gs":
            return True
        if op.kind == "gcv":
            # only inside a walk from the snapshot
            j = i
            while j >= 0 and not trace[j][0].startswith("mark "):
                j -= 1
            return j >= 0 and trace[j][0].startswith("mark swalk") and resp_kind(ri) != resp_kind(rm)
        return False
    def oracle(self, case, trace, backend):
        fails, tr = [], SnapTracker()
        if case.meta.get("http"):
            from .props_http import HOp, HResp
            cur = {}           # client -> (version, body) of its most recent complete, well-formed upload for the latest version
            for i, (o, ri, rm) in enumerate(trace):
                if not o.startswith("http "):
                    continue
                h, r = HOp(o), HResp(ri)
                if h.route == "as":
                    if h.valid() and r.status == 200:
                        # (ids are numbered in the order the server issued them: an upload for a version older than
                        # the one the stored snapshot is for, or for that very version, is declined, whatever else is in flight)
                        if not (h.cid in cur and cur[h.cid] and cur[h.cid][0].isdigit() and h.seg.isdigit() and int(h.seg) <= int(cur[h.cid][0])):
                            cur[h.cid] = (h.seg, h.body())
                    elif not h.valid() and r.status == 200:
                        fails.append(f"op {i}: an upload that was not complete / well-formed was answered 200: `{o[:90]}`")
                if h.route == "snap":
                    if case.meta.get("faults") and r.status >= 500:
                        continue          # a storage call failed and the client was told so
                    got = (r.xv, r.body) if r.status == 200 else None
                    if got != cur.get(h.cid):
                        fails.append(f"op {i}: get_snapshot returned {str(got)[:80]}, the most recently accepted upload is {str(cur.get(h.cid))[:80]}")
                        cur[h.cid] = got
            return fails
        i = 0
        while i < len(trace):
            o, ri, rm = trace[i]
            op = Op(o)
            tr.feed(op, ri)
            if op.kind == "gs" and resp_kind(ri) in ("snap", "nosnap"):
                want = tr.expect_gs(op.c)
                if want is None:
                    tr.resync(op.c, ri)
                elif ri != want:
                    fails.append(f"op {i}: get_snapshot returned `{ri}`, the most recently accepted upload is `{want}`")
                    tr.resync(op.c, ri)
            if op.kind == "mark" and op.args[0] == "swalk":
                c = int(op.args[1])
                j = i + 1
                gsline = None
                found, end = [], None
                while j < len(trace) and not trace[j][0].startswith("mark endwalk"):
                    oj = Op(trace[j][0])
                    if oj.kind == "gs":
                        gsline = trace[j][1]
                        want = tr.expect_gs(c)
                        if resp_kind(gsline) in ("snap", "nosnap"):
                            if want is None:
                                tr.resync(c, gsline)
                            elif gsline != want:
                                fails.append(f"op {j}: get_snapshot returned `{gsline}`, the most recently accepted upload is `{want}`")
                                tr.resync(c, gsline)
                    elif oj.kind == "gcv":
                        fv = found_version(trace[j][1])
                        if fv:
                            found.append(fv[0])
                        else:
                            end = resp_kind(trace[j][1])
                    j += 1
                if gsline and gsline.startswith("snap "):
                    v = int(gsline.split()[1])
                    ids = [a[0] for a in tr.acc.get(c, [])]
                    base = tr.acc[c][0][1] if tr.acc.get(c) else 0
                    if v in ids:
                        want_walk = ids[ids.index(v) + 1:]
                    elif v == base:
                        want_walk = ids
                    else:
                        want_walk = None
                        fails.append(f"op {i}: snapshot version {v} is not on the chain of client {c}")
                    if end == "gone":
                        fails.append(f"op {i}: walking from snapshot version {v} was told gone")
                    elif want_walk is not None and (found != want_walk or end != "notfound"):
                        fails.append(f"op {i}: walk from snapshot {v} returned {found} then {end}; expected {want_walk} then notfound")
                i = j
            i += 1
        return fails
    def nontrivial(self, case, trace):
        tr = SnapTracker(); acc = dec = 0
        for (o, ri, _) in trace:
            op = Op(o)
            before = tr.snap.get(op.c) if op.c else None
            tr.feed(op, ri)
            if op.kind == "as" and resp_kind(ri) == "snapack":
                if tr.snap.get(op.c) != before: acc += 1
                else: dec += 1
        return acc >= 2 and dec >= 1


# ------------------------------------------------------------------ C13
def l0_cases(rng, n):
    """storage-trait rig: transactions made of the eight StorageTxn calls.  Two streams: sequences
    that stay inside the storage contract (a small reference state is kept here to choose them),
    compared call by call with each backend's model and across backends; and adversarial sequences,
    compared only up to the first call that leaves the contract."""
    out = []
    for k in range(n):
        adversarial = k % 4 == 3
        st = {}            # client -> {"latest": id name, "vers": [(v, p)], "snap": version name or None}
        fresh = [0]
        def newid():
            fresh[0] += 1
            return f"$v{fresh[0]}"
        ops = []
        only_sqlite = False
        for t in range(rng.randint(3, 12)):
            c = rng.choice([1, 1, 2])
            calls, wrote = [], False
            cur = dict(st[c], vers=list(st[c]["vers"])) if c in st else None
            for j in range(rng.randint(1, 5)):
                if adversarial:
                    ids = ["nil"] + [f"$v{i}" for i in range(1, fresh[0] + 2)] + ["$x"]
                    kind = rng.choice(["gc", "nc", "ss", "gsd", "gvp", "gv", "av", "co"])
                    if kind == "nc": calls.append(f"nc={rng.choice(ids)}")
                    elif kind == "ss": calls.append(f"ss={rng.choice(ids)}/{rng.choice([0, 1, 7])}/b:{rng.randint(0, 9)}")
                    elif kind in ("gsd", "gvp", "gv"): calls.append(f"{kind}={rng.choice(ids)}")
                    elif kind == "av":
                        v = newid() if rng.random() < 0.7 else rng.choice(ids[1:])
                        calls.append(f"av={v}/{rng.choice(ids)}/b:{rng.randint(0, 9)},{t}")
                    elif kind == "co":
                        # (a second COMMIT in one transaction is something no caller does and the
                        # backends disagree about: one commit per transaction at most)
                        if "co" not in calls: calls.append("co")
                    else: calls.append(kind)
                    continue
                # inside the contract
                kinds = ["gc", "gvp", "gv"]
                if cur is None: kinds += ["nc", "nc"]
                else: kinds += ["av", "av", "av", "ss"] + (["gsd"] if cur["snap"] else [])
                kind = rng.choice(kinds)
                known = ["nil", "$x"] + [v for (v, p) in (cur["vers"] if cur else [])]
                if kind == "gc": calls.append("gc")
                elif kind in ("gvp", "gv"): calls.append(f"{kind}={rng.choice(known)}")
                elif kind == "nc":
                    l = rng.choice(["nil", "nil", "$x"])
                    calls.append(f"nc={l}"); cur = {"latest": l, "vers": [], "snap": None}; wrote = True
                elif kind == "av":
                    v = newid()
                    parents = {p for (_, p) in cur["vers"]}
                    p = cur["latest"] if cur["latest"] not in parents else newid()
                    calls.append(f"av={v}/{p}/b:{rng.randint(0, 9)},{t}")
                    cur["vers"].append((v, p)); cur["latest"] = v; wrote = True
                elif kind == "ss":
                    v = rng.choice(known)
                    calls.append(f"ss={v}/{rng.choice([0, 3])}/b:{rng.randint(0, 9)}"); cur["snap"] = v; wrote = True
                elif kind == "gsd":
                    calls.append(f"gsd={cur['snap']}")
            if not adversarial:
                if wrote and rng.random() < 0.15:
                    only_sqlite = True          # dropped without commit: rolled back (the in-memory test backend panics here)
                elif wrote:
                    calls.append("co")
                    st[c] = cur
            ops.append(f"txn {c} " + " ".join(calls))
        meta = {"l0": True, "raw": k % 2 == 0}
        if only_sqlite or adversarial:
            meta["only"] = "sqlite" if (only_sqlite or k % 8 == 3) else "inmem"
            if adversarial and meta["only"] == "inmem":
                # the in-memory test backend panics when a transaction that wrote is dropped without a
                # commit and poisons its lock: always commit there
                ops = [o if " co" in o else o + " co" for o in ops]
        out.append(Case(f"c13-l0-{k}", ops, meta))
    return out


class C13(L1Prop):
    id = "C13"
    rule = ("the same symbolic history run in lock step on the in-memory backend and on SQLite with reopen at random "
            "points (new storage object, schema setup re-run), complete dumps and raw SQLite rows after each step; "
            "responses compared across backends and rows compared with the table model; non-trivial = >=1 reopen, "
            ">=1 snapshot and >=3 versions")
    def cases(self, rng, tier):
        n, length = sizes(tier, (300, 40), (1500, 150))
        out = []
        for k in range(n):
            nc = rng.choice([1, 2, 3])
            def obs(g, step):
                r = rng.random()
                if r < 0.25: return ["dumpall", "rows"]
                if r < 0.35: return ["reopen", "dumpall"]
                return []
            ops, g = rand_prefix(rng, rng.randint(8, length), nc, k % 5 == 0, True, True, obs)
            ops += ["reopen", "dumpall", "rows"]
            out.append(Case(f"c13-{k}", ops))
        out += l0_cases(rng, sizes(tier, 150, 1500))
        # payloads at the very top of what the API accepts (100 MiB): both backends store and return them
        for k, nb in enumerate([104857600, 104857599] if tier == "thorough" else [104857600]):
            ops = ["ensure 1", "av 1 nil b:1", f"av 1 latest:1 z:{nb}:{k + 1}", "gcv 1 anc:1:1", f"as 1 latest:1 z:{nb}:{k + 3}", "gs 1",
                   "av 1 latest:1 b:2", "reopen", "gcv 1 anc:1:2", "gs 1"]
            out.append(Case(f"c13-max-{k}", ops, {"raw": False}))
        # the data directory has a name of the operator's choosing
        names = ["sync#2", "tasks%2Fwork", "really?", "a&b=c;d", "file:x?mode=ro", "it's", 'q"uote', "üñï-dir", "%", "x#", "-dash", "..dots..", "semi;colon"]
        for k in range(sizes(tier, 13, 60)):
            nc = rng.choice([1, 2])
            def obs2(g, step):
                r = rng.random()
                if r < 0.2: return ["dumpall"]
                if r < 0.35: return ["reopen", "dumpall"]
                return []
            ops, g = rand_prefix(rng, rng.randint(8, 20), nc, False, True, True, obs2)
            ops = [f"subdir {names[k % len(names)]}"] + ops + ["reopen", "dumpall"]
            out.append(Case(f"c13-dir-{k}", ops))
        # the directory is what a first start that died part-way left behind (every prefix of the start-up steps,
        # Setup.dead_start): the backend opened on it behaves like any other
        for k in range(sizes(tier, 7, 28)):
            nc = rng.choice([1, 2])
            ops, g = rand_prefix(rng, rng.randint(6, 16), nc, False, True, True, None)
            ops = [f"deadstart {k % 7}"] + ops + ["dumpall", "reopen", "dumpall"]
            out.append(Case(f"c13-deadstart-{k}", ops))
        # a chain that starts on a version the server never stored, and an upload for exactly that version
        for k in range(sizes(tier, 10, 60)):
            more = k % 5
            ops = ["ensure 1", "av 1 fresh b:1"] + [f"av 1 latest:1 b:2,{i}" for i in range(more)]
            if k % 2:
                ops += [f"as 1 latest:1 b:7", "av 1 latest:1 b:3"]
            ops += ["dumpall", "as 1 base:1 b:9,9", "gs 1", "dumpall", "rows", "av 1 latest:1 b:4", "dumpall", "reopen", "gs 1"]
            out.append(Case(f"c13-base-{k}", ops))
        return out
    def normalize(self, trace):
        # storage-trait lines: the model also says whether the call sequence so far is inside the
        # storage contract (run on the abstract store); that note moves from the response to the op
        out, ok = [], True
        for (o, ri, rm) in trace:
            if o.startswith("txn "):
                m = re.match(r"^(.*) contract=(ok|broken)$", rm)
                if m:
                    ok = ok and m.group(2) == "ok"
                    o, rm = o + (" #in-contract" if ok else " #out-of-contract"), m.group(1)
            out.append((o, ri, rm))
        return out
    def relevant(self, i, trace):
        # storage-trait rig: a difference between a backend and ITS model, on a call sequence that is
        # inside the storage contract (outside it nothing is claimed)
        o, ri, rm = trace[i]
        if o.startswith("txn "):
            return o.endswith("#in-contract")
        return False      # responses across backends are compared directly (cross); raw rows belong to C19
    def cross(self, case, traces):
        a, b = traces.get("inmem", []), traces.get("sqlite", [])
        if case.meta.get("l0"):
            a, b = self.normalize(a), self.normalize(b)
            for i, ((oa, ra, _), (ob, rb, _)) in enumerate(zip(a, b)):
                if not oa.endswith("#in-contract"):
                    break
                ta, tb = re.sub(r"@\d+\+", "@T+", ra), re.sub(r"@\d+\+", "@T+", rb)
                if ta != tb:
                    return [f"storage call sequence {i} `{oa[:120]}` (inside the storage contract): in-memory backend answered `{ra}`, SQLite answered `{rb}`"]
            return []
        for i, ((oa, ra, _), (ob, rb, _)) in enumerate(zip(a, b)):
            if oa.split()[0] == "rows":
                continue
            # the two backends are driven by separate processes at different wall-clock times:
            # snapshot times are compared only coarsely here (each run is compared with the model,
            # which is given that run's own clock readings, to the second)
            if not same_line(oa, ra, rb, tol=3600):
                return [f"op {i} `{oa}`: in-memory backend answered `{ra}`, SQLite answered `{rb}`"]
        if len(a) != len(b):
            return [f"traces differ in length: {len(a)} vs {len(b)}"]
        return []
    def nontrivial(self, case, trace):
        ks = [o.split()[0] for o, _, _ in trace]
        return ks.count("reopen") >= 1 and sum(1 for (o, ri, _) in trace if o.startswith("av ") and resp_kind(ri) == "added") >= 3


# ------------------------------------------------------------------ C18
class C18(L1Prop):
    id = "C18"
    overlap = True
    rule = ("random histories with a complete dump of ALL clients (and the raw SQLite rows) before and after every "
            "operation; after GetChildVersion, GetSnapshot, a conflicting AddVersion, a request for an unknown client "
            "and a declined AddSnapshot (declined as decided by the acceptance rule, not by observing the state) the "
            "dumps must be identical, timestamps and counters included; non-trivial = >=3 distinct non-mutating outcome kinds")
    def cases(self, rng, tier):
        n, length = sizes(tier, (200, 30), (800, 100))
        out = []
        for k in range(n):
            nc = rng.choice([1, 2, 3])
            def obs(g, step):
                return ["dumpall", "rows"]
            ops, g = rand_prefix(rng, rng.randint(6, length), nc, k % 2 == 0, False, True, obs)
            if k % 5 == 3:
                # snapshot targets at their extremes: whatever the urgency arithmetic does with them, a request
                # that is not answered with success has changed nothing
                ops = [f"cfg {rng.choice([0, 0, 1, I64MAX])} {rng.choice([0, 0, 1, U32MAX])}"] + ops
            out.append(Case(f"c18-{k}", ["dumpall", "rows"] + ops))
        # a request that is refused because a storage statement failed half way leaves nothing behind
        for k in range(sizes(tier, 8, 60)):
            n = rng.randint(1, 5)
            ops = ["ensure 1", "ensure 2", "av 2 nil b:2"] + [f"av 1 {'nil' if i == 0 else 'latest:1'} b:1,{i}" for i in range(n)]
            if rng.random() < 0.5:
                ops.append("as 1 latest:1 b:9")
            for j in range(rng.randint(1, 3)):
                tbl, stmt, req = rng.choice([("clients", "UPDATE", f"av 1 latest:1 b:6,{j}"), ("versions", "INSERT", f"av 1 latest:1 b:6,{j}"),
                                             ("clients", "UPDATE", f"as 1 latest:1 b:8,{j}")])
                ops += ["dumpall", "rows", f"sqlfault {tbl} {stmt} 2", req, "dumpall", "rows", f"av 1 latest:1 b:3,{j}"]
            out.append(Case(f"c18-sqlfault-{k}", ["dumpall", "rows"] + ops, {"only": "sqlite", "faults": True}))
        # a request refused because a storage call failed — at ANY call the request makes, however many it
        # makes — leaves nothing behind (no plan fails the commit AFTER it took effect: that is the lost
        # acknowledgement of C05, not a refusal)
        for k in range(sizes(tier, 6, 40)):
            n = rng.randint(1, 4)
            ops = ["ensure 1", "ensure 2", "av 2 nil b:2"] + [f"av 1 {'nil' if i == 0 else 'latest:1'} b:1,{i}" for i in range(n)]
            if k % 2:
                ops.append("as 1 latest:1 b:9")
            for idx in range(0, 9):
                req = [f"av 1 latest:1 b:6,{idx}", f"as 1 latest:1 b:8,{idx}", "gcv 1 nil", f"av 1 nil b:7,{idx}", "gs 1"][(k + idx) % 5]
                ops += ["dumpall", "rows", f"fault {idx}:before", req, "dumpall", "rows"]
            out.append(Case(f"c18-fault-{k}", ["dumpall", "rows"] + ops, {"only": "sqlite", "faults": True}))
        # another connection keeps a read transaction open (a backup tool, a shell) while versions of several megabytes are
        # uploaded: every request is either answered with success or has changed nothing
        for k in range(sizes(tier, 2, 6)):
            ops = ["ensure 1", "av 1 nil b:1", "holdread" if k % 2 == 0 else "hold"]
            for j in range(2):
                ops += ["dumpall", "rows", f"av 1 latest:1 z:{[9437184, 12582912, 17825792][(k + j) % 3]}:{j + 1}", "dumpall", "rows", f"as 1 latest:1 z:9437184:{j + 3}", "dumpall", "rows"]
            ops += ["unhold", "dumpall", "rows", "av 1 latest:1 b:9", "dumpall", "rows"]
            out.append(Case(f"c18-held-{k}", ["dumpall", "rows"] + ops, {"only": "sqlite"}))
        # several server instances on one directory, used in turn: what one of them refuses (a stale parent, an old
        # snapshot version — stale or old because ANOTHER instance moved on) changes nothing
        for k in range(sizes(tier, 8, 50)):
            ops = ["ensure 1", "av 1 nil b:1", "av 1 latest:1 b:2"]
            for step in range(rng.randint(3, 8)):
                a, b = rng.sample(range(3), 2)
                ops += [f"inst {a}", f"av 1 latest:1 b:3,{step}", f"inst {b}", f"av 1 latest:1 b:4,{step}"]
                if step % 2:
                    ops += [f"inst {b}", "as 1 latest:1 b:9"]
                ops += [f"inst {a}", "dumpall", "rows", f"av 1 anc:1:{1 + step % 2} b:5,{step}", "dumpall", "rows", "as 1 anc:1:6 b:8", "dumpall", "rows",
                        "gcv 1 latest:1", "dumpall", "rows"]
            out.append(Case(f"c18-inst-{k}", ["dumpall", "rows"] + ops, {"only": "sqlite"}))
        from .props_http import refusal_cases
        out += refusal_cases(rng, sizes(tier, 6, 60))
        return out
    def _segments(self, trace):
        """indices of protocol ops with the dump blocks before and after"""
        for i, (o, ri, rm) in enumerate(trace):
            k = o.split()[0]
            if k in ("av", "gcv", "as", "gs"):
                yield i
    def _block(self, trace, i, direction):
        out, j = [], i + direction
        while 0 <= j < len(trace) and trace[j][0].split()[0] in ("dump", "rows"):
            out.append(trace[j]); j += direction
        return out if direction > 0 else list(reversed(out))
    def relevant(self, i, trace):
        o = trace[i][0]
        if o.split()[0] != "dump":
            return False      # raw rows are compared before/after by the oracle, not against the model
        j = i
        while j >= 0 and trace[j][0].split()[0] in ("dump", "rows"):
            j -= 1
        if j < 0:
            return False
        op = Op(trace[j][0]); rm = trace[j][2]
        k = resp_kind(rm)
        return op.kind in ("gcv", "gs") or (op.kind == "av" and k in ("conflict", "noclient")) or op.kind == "as"
    def oracle(self, case, trace, backend):
        if case.meta.get("http_refusals"):
            from .props_http import refusal_oracle
            return refusal_oracle(case, trace, backend)
        fails, tr = [], SnapTracker()
        trace = [t for t in trace if not t[0].startswith(("fault ", "mark fired"))]
        for i, (o, ri, rm) in enumerate(trace):
            op = Op(o)
            pure = False
            if op.kind in ("gcv", "gs"):
                pure = True
            elif op.kind in ("av", "as") and resp_kind(ri) == "error" and case.meta.get("faults"):
                pure = True          # refused: the storage step failed before anything was committed
            elif op.kind in ("av", "as") and resp_kind(ri) in ("error", "panic") and not case.meta.get("faults"):
                pure = True          # no storage fault was injected: a request that is not answered has changed nothing
            elif op.kind == "av" and resp_kind(ri) in ("conflict", "noclient"):
                pure = True
            elif op.kind == "as":
                if resp_kind(ri) == "noclient":
                    pure = True
                else:
                    window, base = chain_info(tr.acc.get(op.c, []))
                    cur = tr.snap.get(op.c)
                    w = rule_accepts(window, base, cur[0] if cur else None, op.v)
                    pure = (w is False) and not tr.unknown.get(op.c)
            tr.feed(op, ri)
            if op.kind == "as" and tr.unknown.get(op.c):
                # open corner: resynchronise from the dump that follows
                for (o2, r2, _) in self._block(trace, i, +1):
                    if o2.startswith(f"dump {op.c} "):
                        d = Dump(r2)
                        if d.ok and d.snap:
                            tr.snap[op.c] = (d.snap[0], d.data)
                        tr.unknown[op.c] = None
            if not pure:
                continue
            before, after = self._block(trace, i, -1), self._block(trace, i, +1)
            bd = {x[0].split()[1]: Dump(x[1]) for x in before if x[0].startswith("dump ")}
            ad = {x[0].split()[1]: Dump(x[1]) for x in after if x[0].startswith("dump ")}
            for c in bd:
                if c in ad and bd[c].ok and ad[c].ok and bd[c].key(False) != ad[c].key(False, bd[c].by_id.keys()):
                    fails.append(f"op {i} `{o}` answered `{ri}` (non-mutating) but client {c} changed: `{bd[c].line[:160]}` -> `{ad[c].line[:160]}`")
                if c in ad and any(v is not None for kk, v in list(ad[c].by_id.items()) + list(ad[c].by_parent.items()) if kk not in bd[c].by_id):
                    fails.append(f"op {i} `{o}` (non-mutating) stored a version")
            br = [x[1] for x in before if x[0] == "rows"]
            ar = [x[1] for x in after if x[0] == "rows"]
            if br and ar and br[-1] != ar[0] and not br[-1].startswith("rows na"):
                fails.append(f"op {i} `{o}` answered `{ri}` (non-mutating) but the raw rows changed")
        return fails
    def nontrivial(self, case, trace):
        kinds = set()
        for (o, ri, _) in trace:
            k = o.split()[0]
            if k in ("gcv", "gs"): kinds.add(k + resp_kind(ri))
            if k == "av" and resp_kind(ri) in ("conflict", "noclient"): kinds.add(resp_kind(ri))
        return len(kinds) >= 3


ALL = {}
for cls in (C01, C02, C07, C08, C09, C10, C11, C12, C13, C18):
    ALL[cls.id] = cls
