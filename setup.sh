#!/bin/bash
# Run once after a fresh restore, offline: clean Coq build, extraction + OCaml runner,
# Rust harness against /repo's current working tree.
set -e
cd "$(dirname "$0")"
export CARGO_NET_OFFLINE=true
mkdir -p .cache evidence replays
( cd coq && coq_makefile -f _CoqProject -o Makefile >/dev/null 2>&1 && timeout 3000 make -j16 2>&1 | grep -v "^Warning" | tail -5 )
python3 - <<'PY'
import sys
sys.path.insert(0, '.')
from vlib import build
ok, msg = build.build_runner()
print("runner:", ok, msg[-300:] if not ok else "")
ok, binp, log = build.build_harness()
print("harness:", ok, log[-2000:] if not ok else binp)
ok2, sbin, log2 = build.build_server_bin()
print("server binary:", ok2, log2[-2000:] if not ok2 else sbin)
sys.exit(0 if (ok and ok2) else 1)
PY
