//! L2s: overlapping requests under a controlled scheduler.  Each request runs on its own OS
//! thread with its own actix System / App instance; storage is wrapped in `GateStorage`, which
//! parks the thread before every transaction begin (and, when asked, before every storage
//! call) until the scheduler grants it a step.  Because transactions are exclusive, the
//! schedules that matter are orderings of whole transactions plus "try to begin while another
//! transaction is open" probes (the second `txn()` must not return before the first ends).
use crate::http::{run_request, HCtx, Prepared, RawResult};
use crate::l1::Backend;
use crate::store::Shared;
use std::cell::Cell;
use std::collections::{HashMap, HashSet};
use std::sync::{Arc, Condvar, Mutex};
use std::time::{Duration, Instant};
use taskchampion_sync_server::WebServer;
use taskchampion_sync_server_core::{Client, ServerConfig, Snapshot, Storage, StorageTxn, Version};
use taskchampion_sync_server_storage_sqlite::SqliteStorage;
use uuid::Uuid;

thread_local! {
    static TID: Cell<usize> = Cell::new(usize::MAX);
}

#[derive(Default)]
struct GateState {
    waiting_begin: HashSet<usize>,
    waiting_call: HashSet<usize>,
    grants: HashMap<usize, usize>,
    arrive_call: HashMap<usize, usize>,
    entered: HashMap<usize, usize>,
    ended: HashMap<usize, usize>,
    open: HashSet<usize>,
    finished: HashSet<usize>,
    hold_calls: HashSet<usize>,
    /// threads to be stopped right after their transaction has ended, before they go on
    hold_end: HashSet<usize>,
    waiting_end: HashSet<usize>,
    events: Vec<String>,
}

#[derive(Default)]
pub struct Gate {
    st: Mutex<GateState>,
    cv: Condvar,
}

impl Gate {
    fn park(&self, tid: usize, at_call: bool) {
        let mut g = self.st.lock().unwrap();
        if at_call {
            if !g.hold_calls.contains(&tid) {
                return;
            }
            g.waiting_call.insert(tid);
            *g.arrive_call.entry(tid).or_insert(0) += 1;
        } else {
            g.waiting_begin.insert(tid);
        }
        self.cv.notify_all();
        loop {
            if let Some(n) = g.grants.get_mut(&tid) {
                if *n > 0 {
                    *n -= 1;
                    break;
                }
            }
            g = self.cv.wait(g).unwrap();
        }
        g.waiting_begin.remove(&tid);
        g.waiting_call.remove(&tid);
        self.cv.notify_all();
    }
    /// stop a thread whose transaction has just ended (when the schedule asks for it)
    fn park_end(&self, tid: usize) {
        let mut g = self.st.lock().unwrap();
        if !g.hold_end.contains(&tid) {
            return;
        }
        g.waiting_end.insert(tid);
        self.cv.notify_all();
        loop {
            if let Some(n) = g.grants.get_mut(&tid) {
                if *n > 0 {
                    *n -= 1;
                    break;
                }
            }
            g = self.cv.wait(g).unwrap();
        }
        g.waiting_end.remove(&tid);
        self.cv.notify_all();
    }
    fn note(&self, f: impl FnOnce(&mut GateState)) {
        let mut g = self.st.lock().unwrap();
        f(&mut g);
        self.cv.notify_all();
    }
    fn wait(&self, timeout_ms: u64, cond: impl Fn(&GateState) -> bool) -> bool {
        let deadline = Instant::now() + Duration::from_millis(timeout_ms);
        let mut g = self.st.lock().unwrap();
        loop {
            if cond(&g) {
                return true;
            }
            let now = Instant::now();
            if now >= deadline {
                return false;
            }
            let (g2, _) = self.cv.wait_timeout(g, deadline - now).unwrap();
            g = g2;
        }
    }
    fn grant(&self, tid: usize) {
        self.note(|g| *g.grants.entry(tid).or_insert(0) += 1);
    }
}

pub struct GateStorage {
    pub inner: Box<dyn Storage>,
    pub gate: Arc<Gate>,
}

struct GateTxn<'a> {
    inner: Option<Box<dyn StorageTxn + 'a>>,
    gate: Arc<Gate>,
    tid: usize,
}

impl Storage for GateStorage {
    fn txn(&self, client_id: Uuid) -> anyhow::Result<Box<dyn StorageTxn + '_>> {
        let tid = TID.with(|t| t.get());
        if tid == usize::MAX {
            return self.inner.txn(client_id);
        }
        self.gate.park(tid, false);
        let r = self.inner.txn(client_id);
        match r {
            Ok(t) => {
                self.gate.note(|g| {
                    // exclusivity: no other gated transaction may be open when txn() returns
                    if !g.open.is_empty() {
                        let others: Vec<String> = g.open.iter().map(|x| x.to_string()).collect();
                        g.events.push(format!("LOCK-VIOLATION:t{tid}-entered-while-open-{}", others.join("+")));
                    }
                    g.open.insert(tid);
                    *g.entered.entry(tid).or_insert(0) += 1;
                });
                Ok(Box::new(GateTxn { inner: Some(t), gate: self.gate.clone(), tid }))
            }
            Err(e) => {
                self.gate.note(|g| {
                    g.events.push(format!("BEGIN-ERROR:t{tid}"));
                    *g.ended.entry(tid).or_insert(0) += 1;
                });
                Err(e)
            }
        }
    }
}

impl Drop for GateTxn<'_> {
    fn drop(&mut self) {
        let tid = self.tid;
        // the transaction is over from the moment its owner drops it: whoever obtains the lock
        // next may do so before this function returns
        self.gate.note(|g| {
            g.open.remove(&tid);
        });
        self.inner = None;
        self.gate.note(|g| {
            *g.ended.entry(tid).or_insert(0) += 1;
        });
        if !std::thread::panicking() {
            self.gate.park_end(tid);
        }
    }
}

impl StorageTxn for GateTxn<'_> {
    fn get_client(&mut self) -> anyhow::Result<Option<Client>> {
        self.gate.park(self.tid, true);
        self.inner.as_mut().unwrap().get_client()
    }
    fn new_client(&mut self, l: Uuid) -> anyhow::Result<()> {
        self.gate.park(self.tid, true);
        self.inner.as_mut().unwrap().new_client(l)
    }
    fn set_snapshot(&mut self, s: Snapshot, d: Vec<u8>) -> anyhow::Result<()> {
        self.gate.park(self.tid, true);
        self.inner.as_mut().unwrap().set_snapshot(s, d)
    }
    fn get_snapshot_data(&mut self, v: Uuid) -> anyhow::Result<Option<Vec<u8>>> {
        self.gate.park(self.tid, true);
        self.inner.as_mut().unwrap().get_snapshot_data(v)
    }
    fn get_version_by_parent(&mut self, p: Uuid) -> anyhow::Result<Option<Version>> {
        self.gate.park(self.tid, true);
        self.inner.as_mut().unwrap().get_version_by_parent(p)
    }
    fn get_version(&mut self, v: Uuid) -> anyhow::Result<Option<Version>> {
        self.gate.park(self.tid, true);
        self.inner.as_mut().unwrap().get_version(v)
    }
    fn add_version(&mut self, v: Uuid, p: Uuid, h: Vec<u8>) -> anyhow::Result<()> {
        self.gate.park(self.tid, true);
        self.inner.as_mut().unwrap().add_version(v, p, h)
    }
    fn commit(&mut self) -> anyhow::Result<()> {
        self.gate.park(self.tid, true);
        self.inner.as_mut().unwrap().commit()
    }
}

impl HCtx {
    /// conc MODE REQ1 || REQ2 || ... ## SCHEDULE
    /// MODE = shared (one storage object) | multi (one SqliteStorage per request on one directory)
    /// SCHEDULE tokens: `i` = let thread i run its next transaction to the end;
    ///                  `i.k!j` = open thread i's transaction, stop it before its k-th storage
    ///                  call, let thread j try to begin (it must block), then finish i, then j
    pub fn conc(&mut self, mode: &str, reqs: Vec<Vec<String>>, sched: Vec<String>) {
        let preps: Vec<Prepared> = reqs
            .iter()
            .map(|r| {
                let toks: Vec<&str> = r.iter().map(|s| s.as_str()).collect();
                self.build(&toks[1..])
            })
            .collect();
        let gate = Arc::new(Gate::default());
        let cfg = || ServerConfig { snapshot_days: self.l1.days, snapshot_versions: self.l1.versions, ..Default::default() };
        let allow: Option<HashSet<Uuid>> = self.allow.clone().map(|v| v.into_iter().map(|c| self.l1.clients[&c]).collect());
        let n = preps.len();
        let mut webs: Vec<WebServer> = vec![];
        let mut keep_web: Option<WebServer> = None;
        let multi = mode == "multi" && self.l1.backend == Backend::Sqlite;
        struct RmLinks(Vec<std::path::PathBuf>);
        impl Drop for RmLinks {
            fn drop(&mut self) {
                for l in &self.0 {
                    let _ = std::fs::remove_file(l);
                }
            }
        }
        let mut links = RmLinks(vec![]);
        if multi {
            for k in 0..n {
                // the same directory under differently spelled paths (as separate processes, or
                // instances configured through a symlink, would see it)
                let dir = self.l1.data_dir();
                let spelled = if k == 0 {
                    dir.clone()
                } else {
                    // (Rust path equality ignores `.` components, so a symbolic link it is)
                    let link = dir.with_file_name(format!("{}-alias{}", dir.file_name().unwrap().to_string_lossy(), k));
                    let _ = std::os::unix::fs::symlink(&dir, &link);
                    links.0.push(link.clone());
                    if link.exists() { link } else { dir.clone() }
                };
                let st = SqliteStorage::new(&spelled).expect("open sqlite");
                webs.push(WebServer::new(cfg(), allow.clone(), GateStorage { inner: Box::new(st), gate: gate.clone() }));
            }
        } else {
            let shared: Shared = self.l1.shared();
            let w = WebServer::new(cfg(), allow.clone(), GateStorage { inner: Box::new(shared), gate: gate.clone() });
            for _ in 0..n {
                webs.push(w.clone());
            }
            // one process, one server object: the requests that follow the overlap in this case are served by the
            // server object that served the overlapping ones (the gate lets unscheduled threads through)
            keep_web = Some(w);
        }
        let now = chrono::Utc::now().timestamp();
        let results: Arc<Mutex<HashMap<usize, std::thread::Result<RawResult>>>> = Arc::new(Mutex::new(HashMap::new()));
        // a request is SENT when the schedule first mentions it (until then it does not exist): what had
        // finished by then precedes it in real time, and is noted as `RT:i<j`
        let handles: std::cell::RefCell<Vec<std::thread::JoinHandle<()>>> = std::cell::RefCell::new(vec![]);
        let pending: std::cell::RefCell<Vec<Option<(Prepared, WebServer)>>> = std::cell::RefCell::new(
            preps.iter().zip(webs.into_iter()).map(|(prep, web)| Some((Prepared {
                method: prep.method.clone(), uri: prep.uri.clone(), cid_bytes: prep.cid_bytes.clone(), ct_val: prep.ct_val.clone(),
                chunks: prep.chunks.clone(), broken: prep.broken, http10: prep.http10, op_prefix: String::new(), route_class: String::new(), seg_class: String::new(), cid_class: String::new(), extra: prep.extra.clone(), pause_ms: prep.pause_ms,
            }, web))).collect());
        let rt_notes: std::cell::RefCell<Vec<String>> = std::cell::RefCell::new(vec![]);
        let start = |tid: usize| {
            let taken = pending.borrow_mut().get_mut(tid).and_then(|x| x.take());
            if let Some((prep2, web)) = taken {
                {
                    let g = gate.st.lock().unwrap();
                    let mut fin: Vec<usize> = g.finished.iter().cloned().collect();
                    fin.sort();
                    for i in fin {
                        rt_notes.borrow_mut().push(format!("RT:{i}<{tid}"));
                    }
                }
                let gate2 = gate.clone();
                let res2 = results.clone();
                handles.borrow_mut().push(std::thread::spawn(move || {
                    TID.with(|t| t.set(tid));
                    let r = run_request(web, &prep2);
                    res2.lock().unwrap().insert(tid, r);
                    gate2.note(|g| {
                        g.finished.insert(tid);
                    });
                }));
            }
        };
        let ended = |g: &GateState, i: usize| *g.ended.get(&i).unwrap_or(&0);
        let mut notes: Vec<String> = vec![];
        // run one whole transaction of thread i
        let run_txn = |i: usize, notes: &mut Vec<String>| {
            start(i);
            if !gate.wait(10_000, |g| g.waiting_begin.contains(&i) || g.finished.contains(&i)) {
                notes.push(format!("HANG:t{i}-never-reached-begin"));
                return;
            }
            if gate.st.lock().unwrap().finished.contains(&i) {
                return;
            }
            let before = ended(&gate.st.lock().unwrap(), i);
            gate.grant(i);
            if !gate.wait(20_000, |g| ended(g, i) > before || g.finished.contains(&i)) {
                notes.push(format!("HANG:t{i}-transaction-did-not-end"));
            }
        };
        for tok in &sched {
            if let Some((left, j)) = tok.split_once('!') {
                // begin-while-held probe
                let (i, k) = left.split_once('.').unwrap();
                let (i, k, j): (usize, usize, usize) = (i.parse().unwrap(), k.parse().unwrap(), j.parse().unwrap());
                start(i);
                start(j);
                if !gate.wait(10_000, |g| g.waiting_begin.contains(&i) || g.finished.contains(&i)) { notes.push(format!("HANG:t{i}")); continue; }
                if gate.st.lock().unwrap().finished.contains(&i) { continue; }
                gate.note(|g| { g.hold_calls.insert(i); });
                let before_i = ended(&gate.st.lock().unwrap(), i);
                // let i pass k storage calls, then hold it before the next one (the arrival count is
                // read BEFORE i is let go, or its first arrival could be missed)
                let arrivals = |g: &GateState| *g.arrive_call.get(&i).unwrap_or(&0);
                let base = arrivals(&gate.st.lock().unwrap());
                gate.grant(i);
                let mut stopped = true;
                for step in 0..=k {
                    // wait for the (step+1)-th arrival at a storage call of this transaction
                    if !gate.wait(10_000, |g| arrivals(g) > base + step || ended(g, i) > before_i) { stopped = false; break; }
                    if ended(&gate.st.lock().unwrap(), i) > before_i || arrivals(&gate.st.lock().unwrap()) <= base + step { stopped = false; break; }
                    if step < k {
                        gate.grant(i);
                    }
                }
                if stopped && gate.wait(5_000, |g| g.waiting_begin.contains(&j) || g.finished.contains(&j)) && !gate.st.lock().unwrap().finished.contains(&j) {
                    let entered_before = *gate.st.lock().unwrap().entered.get(&j).unwrap_or(&0);
                    let bj = ended(&gate.st.lock().unwrap(), j);
                    gate.grant(j);
                    // j must NOT get its transaction while i's is open
                    let got_in = gate.wait(400, |g| *g.entered.get(&j).unwrap_or(&0) > entered_before);
                    if got_in {
                        notes.push(format!("LOCK-VIOLATION:t{j}-began-while-t{i}-open"));
                    } else {
                        notes.push(format!("blocked:t{j}-waits-for-t{i}"));
                    }
                    gate.note(|g| { g.hold_calls.remove(&i); });
                    gate.grant(i);
                    if !gate.wait(20_000, |g| ended(g, i) > before_i) { notes.push(format!("HANG:t{i}")); }
                    if !gate.wait(20_000, |g| ended(g, j) > bj || g.finished.contains(&j)) { notes.push(format!("HANG:t{j}-after-wait")); }
                } else {
                    // release i only if it is parked at a storage call: a grant handed to a thread
                    // whose transaction is already over would let its NEXT transaction through
                    // unscheduled
                    let mut parked = false;
                    gate.note(|g| {
                        g.hold_calls.remove(&i);
                        parked = g.waiting_call.contains(&i);
                    });
                    if parked {
                        gate.grant(i);
                    }
                    let _ = gate.wait(20_000, |g| ended(g, i) > before_i || g.finished.contains(&i));
                }
            } else if let Some(i) = tok.strip_suffix('<') {
                // run thread i's next transaction and stop the thread right after the transaction has
                // ended (before it does anything with what it read)
                let i: usize = i.parse().unwrap();
                if i >= n { continue; }
                start(i);
                if !gate.wait(10_000, |g| g.waiting_begin.contains(&i) || g.finished.contains(&i)) { notes.push(format!("HANG:t{i}-never-reached-begin")); continue; }
                if gate.st.lock().unwrap().finished.contains(&i) { continue; }
                gate.note(|g| { g.hold_end.insert(i); });
                gate.grant(i);
                if !gate.wait(20_000, |g| g.waiting_end.contains(&i) || g.finished.contains(&i)) { notes.push(format!("HANG:t{i}-transaction-did-not-end")); }
            } else if let Some(i) = tok.strip_suffix('>') {
                // let a thread stopped after its transaction go on (to its next transaction or to its answer)
                let i: usize = i.parse().unwrap();
                if i >= n { continue; }
                let mut parked = false;
                gate.note(|g| { g.hold_end.remove(&i); parked = g.waiting_end.contains(&i); });
                if parked {
                    gate.grant(i);
                    let _ = gate.wait(10_000, |g| g.waiting_begin.contains(&i) || g.finished.contains(&i));
                }
            } else {
                let i: usize = tok.parse().unwrap();
                if i < n {
                    run_txn(i, &mut notes);
                }
            }
        }
        // nobody stays stopped after a transaction
        for i in 0..n {
            let mut parked = false;
            gate.note(|g| { g.hold_end.remove(&i); parked = g.waiting_end.contains(&i); });
            if parked {
                gate.grant(i);
                let _ = gate.wait(10_000, |g| g.waiting_begin.contains(&i) || g.finished.contains(&i));
            }
        }
        // drain: finish every request, lowest thread id first
        for _round in 0..64 {
            let all = gate.st.lock().unwrap().finished.len() == n;
            if all { break; }
            for i in 0..n {
                if !gate.st.lock().unwrap().finished.contains(&i) {
                    run_txn(i, &mut notes);
                }
            }
        }
        for h in handles.into_inner() {
            let _ = h.join();
        }
        notes.extend(rt_notes.into_inner());
        notes.extend(gate.st.lock().unwrap().events.iter().cloned());
        let mut results = results.lock().unwrap();
        if let Some(w) = keep_web {
            self.web = Some(w);
        }
        self.l1.out.push(format!("OP conc {mode} {n}"));
        self.l1.out.push("R conc".to_string());
        for (tid, prep) in preps.into_iter().enumerate() {
            let r = results.remove(&tid).unwrap_or(Err(Box::new("missing")));
            self.finish(prep, r, now, None);
        }
        self.l1.out.push(format!("OP csched {}", if sched.is_empty() { "-".to_string() } else { sched.join(",") }));
        self.l1.out.push(format!("R sched {}", if notes.is_empty() { "-".to_string() } else { notes.join(",") }));
    }
}
