//! Correspondence harness for taskchampion-sync-server: runs the implementation built from
//! /repo's current working tree on generated inputs and prints canonical traces that are
//! compared with the extracted Coq model (see /verif/DESIGN.md section 4).
mod bin;
mod canon;
mod http;
mod l1;
mod sched;
mod store;

/// a logger that accepts every level and discards what it is given: with it installed, the arguments of
/// every `log::debug!` / `log::trace!` in the code under test are evaluated, as they are when an operator
/// runs the server with RUST_LOG=debug
struct Discard;
impl log::Log for Discard {
    fn enabled(&self, _m: &log::Metadata) -> bool { true }
    fn log(&self, r: &log::Record) { let _ = format!("{}", r.args()); }
    fn flush(&self) {}
}
static DISCARD: Discard = Discard;

fn main() {
    if std::env::var("TSS_LOG").is_ok() {
        let _ = log::set_logger(&DISCARD);
        log::set_max_level(log::LevelFilter::Trace);
    }
    let args: Vec<String> = std::env::args().collect();
    let seed: u64 = std::env::var("VERIF_SEED").ok().and_then(|s| s.parse().ok()).unwrap_or(1);
    match args.get(1).map(|s| s.as_str()) {
        Some("lib") => {
            let b = match args.get(2).map(|s| s.as_str()) {
                Some("sqlite") => l1::Backend::Sqlite,
                _ => l1::Backend::InMem,
            };
            l1::main_lib(b, seed);
        }
        Some("bin") => bin::main_bin(seed),
        Some("http") => {
            let b = match args.get(2).map(|s| s.as_str()) {
                Some("sqlite") => l1::Backend::Sqlite,
                _ => l1::Backend::InMem,
            };
            http::main_http(b, seed);
        }
        _ => {
            eprintln!("usage: harness lib|http <inmem|sqlite>");
            std::process::exit(2);
        }
    }
}
