//! Correspondence harness for taskchampion-sync-server: runs the implementation built from
//! /repo's current working tree on generated inputs and prints canonical traces that are
//! compared with the extracted Coq model (see /verif/DESIGN.md section 4).
mod bin;
mod canon;
mod http;
mod l1;
mod sched;
mod store;

fn main() {
    let args: Vec<String> = std::env::args().collect();
    let seed: u64 = std::env::var("VERIF_SEED").ok().and_then(|s| s.parse().ok()).unwrap_or(1);
    match args.get(1).map(|s| s.as_str()) {
        Some("lib") => {
            let b = match args.get(2).map(|s| s.as_str()) {
                Some("sqlite") => l1::Backend::Sqlite,
                _ => l1::Backend::InMem,
            };
            l1::main_lib(b, seed);
        }
        Some("bin") => bin::main_bin(seed),
        Some("http") => {
            let b = match args.get(2).map(|s| s.as_str()) {
                Some("sqlite") => l1::Backend::Sqlite,
                _ => l1::Backend::InMem,
            };
            http::main_http(b, seed);
        }
        _ => {
            eprintln!("usage: harness lib|http <inmem|sqlite>");
            std::process::exit(2);
        }
    }
}
