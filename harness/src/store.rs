//! Storage wrappers used by the harness (ordinary code over the public `Storage` /
//! `StorageTxn` traits; no hook in the repository is needed):
//! `LogStore` records every storage call; `Shared` lets several owners (the library `Server`,
//! the `WebServer`, the harness itself) use one storage object.
use std::sync::{Arc, Mutex};
use taskchampion_sync_server_core::{Client, Snapshot, Storage, StorageTxn, Version};
use uuid::Uuid;

/// fault plan shared by a store and its open transactions: call index -> fail after effect?
#[derive(Default)]
pub struct Faults {
    pub plan: Vec<(usize, bool)>,
    pub count: usize,
    pub fired: usize,
    /// a slow disk: storage call number .0 (counted like the fault plan) takes .1 milliseconds longer, then succeeds
    pub delay: Option<(usize, u64)>,
}

/// another instance acting on the same storage between two transactions of one request: before the
/// `at_begin`-th transaction begin from now on, a complete upload (client created if absent, one version on the
/// nil parent, committed) is made directly on the wrapped storage
pub struct Intrude {
    pub at_begin: usize,
    pub client: Uuid,
    pub version: Uuid,
    pub data: Vec<u8>,
    /// Some(v): instead of uploading a version, the other instance stores a snapshot for version v (stamped now);
    /// the nil id stands for "the version that is the client's latest when the intrusion happens"
    pub snap: Option<Uuid>,
    /// act right AFTER the at_begin-th transaction from now on has committed (instead of before it begins)
    pub after_commit: bool,
    pub seen: usize,
    pub fired: bool,
    pub failed: bool,
}

pub struct LogStore {
    pub intrude: Arc<Mutex<Option<Intrude>>>,
    pub inner: Box<dyn Storage>,
    pub log: Arc<Mutex<Vec<&'static str>>>,
    pub faults: Arc<Mutex<Faults>>,
    /// an external SQLite connection holding the write lock; released (dropped) as soon as the
    /// next `txn()` call returns, whatever it returns
    pub lock_until_begin: Arc<Mutex<Option<rusqlite::Connection>>>,
}

/// what to do with the current storage call: None = go ahead, Some(after)
fn next_fault(f: &Arc<Mutex<Faults>>) -> Option<bool> {
    let mut g = f.lock().unwrap();
    let i = g.count;
    g.count += 1;
    if let Some((k, ms)) = g.delay {
        if k == i {
            g.delay = None;
            drop(g);
            std::thread::sleep(std::time::Duration::from_millis(ms));
            g = f.lock().unwrap();
        }
    }
    let hit = g.plan.iter().find(|(k, _)| *k == i).map(|(_, a)| *a);
    if hit.is_some() {
        g.fired += 1;
    }
    hit
}

fn injected() -> anyhow::Error {
    anyhow::anyhow!("injected storage fault")
}

impl LogStore {
    pub fn new<S: Storage + 'static>(s: S) -> Self {
        LogStore { intrude: Arc::new(Mutex::new(None)), inner: Box::new(s), log: Arc::new(Mutex::new(Vec::new())), faults: Arc::new(Mutex::new(Faults::default())), lock_until_begin: Arc::new(Mutex::new(None)) }
    }
    /// fail the given storage calls (index counted from the next call on; begin counts)
    pub fn set_plan(&self, plan: Vec<(usize, bool)>) {
        let mut g = self.faults.lock().unwrap();
        g.plan = plan;
        g.count = 0;
        g.fired = 0;
    }
    pub fn set_delay(&self, k: usize, ms: u64) {
        let mut g = self.faults.lock().unwrap();
        g.delay = Some((k, ms));
        g.count = 0;
    }
    pub fn clear_plan(&self) -> usize {
        let mut g = self.faults.lock().unwrap();
        g.plan.clear();
        g.delay = None;
        g.fired
    }
    pub fn take_log(&self) -> Vec<&'static str> {
        std::mem::take(&mut *self.log.lock().unwrap())
    }
}

struct LogTxn<'a> {
    inner: Option<Box<dyn StorageTxn + 'a>>,
    log: Arc<Mutex<Vec<&'static str>>>,
    faults: Arc<Mutex<Faults>>,
    store: &'a LogStore,
}

impl Storage for LogStore {
    fn txn(&self, client_id: Uuid) -> anyhow::Result<Box<dyn StorageTxn + '_>> {
        let fire = {
            let mut g = self.intrude.lock().unwrap();
            match g.as_mut() {
                Some(i) => {
                    let now = i.seen;
                    i.seen += 1;
                    if !i.fired && !i.after_commit && now == i.at_begin { i.fired = true; Some((i.client, i.version, i.data.clone(), i.snap)) } else { None }
                }
                None => None,
            }
        };
        if let Some((c, v, d, snap)) = fire {
            self.intrusion(c, v, d, snap);
        }
        self.log.lock().unwrap().push("begin");
        self.txn_rest(client_id)
    }
}

impl LogStore {
    /// what the other instance does (directly on the wrapped storage)
    fn intrusion(&self, c: Uuid, v: Uuid, d: Vec<u8>, snap: Option<Uuid>) {
        {
            let r = (|| -> anyhow::Result<()> {
                let mut t = self.inner.txn(c)?;
                match snap {
                    Some(sv) => {
                        let sv = if sv.is_nil() { t.get_client()?.map(|cl| cl.latest_version_id).unwrap_or(sv) } else { sv };
                        if let Some(i) = self.intrude.lock().unwrap().as_mut() { i.version = sv; }
                        t.set_snapshot(Snapshot { version_id: sv, timestamp: chrono::Utc::now(), versions_since: 0 }, d)?;
                    }
                    None => {
                        if t.get_client()?.is_none() {
                            t.new_client(Uuid::nil())?;
                        }
                        t.add_version(v, Uuid::nil(), d)?;
                    }
                }
                t.commit()?;
                Ok(())
            })();
            if r.is_err() {
                if let Some(i) = self.intrude.lock().unwrap().as_mut() { i.failed = true; }
            }
        }
    }
    /// called by a transaction of this store right after its commit succeeded
    fn after_commit(&self) {
        let fire = {
            let mut g = self.intrude.lock().unwrap();
            match g.as_mut() {
                // (seen was advanced when this transaction began: it is the at_begin-th one if seen == at_begin + 1)
                Some(i) if i.after_commit && !i.fired && i.seen == i.at_begin + 1 => { i.fired = true; Some((i.client, i.version, i.data.clone(), i.snap)) }
                _ => None,
            }
        };
        if let Some((c, v, d, snap)) = fire {
            self.intrusion(c, v, d, snap);
        }
    }
    fn txn_rest(&self, client_id: Uuid) -> anyhow::Result<Box<dyn StorageTxn + '_>> {
        match next_fault(&self.faults) {
            Some(false) => return Err(injected()),
            Some(true) => {
                let t = self.inner.txn(client_id)?;
                drop(t);
                return Err(injected());
            }
            None => {}
        }
        let t = self.inner.txn(client_id);
        if let Some(c) = self.lock_until_begin.lock().unwrap().take() {
            let _ = c.execute_batch("ROLLBACK");
            drop(c);
        }
        let t = t?;
        Ok(Box::new(LogTxn { inner: Some(t), log: self.log.clone(), faults: self.faults.clone(), store: self }))
    }
}

impl Drop for LogTxn<'_> {
    fn drop(&mut self) {
        // drop the wrapped transaction first, then record the end
        self.inner = None;
        if let Ok(mut l) = self.log.lock() {
            l.push("end");
        }
    }
}

impl LogTxn<'_> {
    fn note(&self, s: &'static str) {
        self.log.lock().unwrap().push(s);
    }
}

impl StorageTxn for LogTxn<'_> {
    fn get_client(&mut self) -> anyhow::Result<Option<Client>> {
        self.note("get_client");
        match next_fault(&self.faults) {
            Some(false) => return Err(injected()),
            Some(true) => {
                let _ = self.inner.as_mut().unwrap().get_client();
                return Err(injected());
            }
            None => {}
        }
        self.inner.as_mut().unwrap().get_client()
    }
    fn new_client(&mut self, latest_version_id: Uuid) -> anyhow::Result<()> {
        self.note("new_client");
        match next_fault(&self.faults) {
            Some(false) => return Err(injected()),
            Some(true) => {
                let _ = self.inner.as_mut().unwrap().new_client(latest_version_id);
                return Err(injected());
            }
            None => {}
        }
        self.inner.as_mut().unwrap().new_client(latest_version_id)
    }
    fn set_snapshot(&mut self, snapshot: Snapshot, data: Vec<u8>) -> anyhow::Result<()> {
        self.note("set_snapshot");
        match next_fault(&self.faults) {
            Some(false) => return Err(injected()),
            Some(true) => {
                let _ = self.inner.as_mut().unwrap().set_snapshot(snapshot, data);
                return Err(injected());
            }
            None => {}
        }
        self.inner.as_mut().unwrap().set_snapshot(snapshot, data)
    }
    fn get_snapshot_data(&mut self, version_id: Uuid) -> anyhow::Result<Option<Vec<u8>>> {
        self.note("get_snapshot_data");
        match next_fault(&self.faults) {
            Some(false) => return Err(injected()),
            Some(true) => {
                let _ = self.inner.as_mut().unwrap().get_snapshot_data(version_id);
                return Err(injected());
            }
            None => {}
        }
        self.inner.as_mut().unwrap().get_snapshot_data(version_id)
    }
    fn get_version_by_parent(&mut self, parent_version_id: Uuid) -> anyhow::Result<Option<Version>> {
        self.note("get_version_by_parent");
        match next_fault(&self.faults) {
            Some(false) => return Err(injected()),
            Some(true) => {
                let _ = self.inner.as_mut().unwrap().get_version_by_parent(parent_version_id);
                return Err(injected());
            }
            None => {}
        }
        self.inner.as_mut().unwrap().get_version_by_parent(parent_version_id)
    }
    fn get_version(&mut self, version_id: Uuid) -> anyhow::Result<Option<Version>> {
        self.note("get_version");
        match next_fault(&self.faults) {
            Some(false) => return Err(injected()),
            Some(true) => {
                let _ = self.inner.as_mut().unwrap().get_version(version_id);
                return Err(injected());
            }
            None => {}
        }
        self.inner.as_mut().unwrap().get_version(version_id)
    }
    fn add_version(&mut self, version_id: Uuid, parent_version_id: Uuid, history_segment: Vec<u8>) -> anyhow::Result<()> {
        self.note("add_version");
        match next_fault(&self.faults) {
            Some(false) => return Err(injected()),
            Some(true) => {
                let _ = self.inner.as_mut().unwrap().add_version(version_id, parent_version_id, history_segment);
                return Err(injected());
            }
            None => {}
        }
        self.inner.as_mut().unwrap().add_version(version_id, parent_version_id, history_segment)
    }
    fn commit(&mut self) -> anyhow::Result<()> {
        self.note("commit");
        match next_fault(&self.faults) {
            Some(false) => return Err(injected()),
            Some(true) => {
                let _ = self.inner.as_mut().unwrap().commit();
                return Err(injected());
            }
            None => {}
        }
        let r = self.inner.as_mut().unwrap().commit();
        if r.is_ok() {
            self.store.after_commit();
        }
        r
    }
}

/// one storage object, several owners
#[derive(Clone)]
pub struct Shared(pub Arc<dyn Storage>);

impl Storage for Shared {
    fn txn(&self, client_id: Uuid) -> anyhow::Result<Box<dyn StorageTxn + '_>> {
        self.0.txn(client_id)
    }
}


thread_local! {
    /// message and location of the most recent panic on this thread (the default hook is silenced)
    pub static LAST_PANIC: std::cell::RefCell<String> = std::cell::RefCell::new(String::new());
}

/// silence the default panic output but remember what was said
pub fn install_panic_recorder() {
    std::panic::set_hook(Box::new(|info| {
        let msg = info.payload().downcast_ref::<&str>().map(|s| s.to_string())
            .or_else(|| info.payload().downcast_ref::<String>().cloned()).unwrap_or_default();
        let loc = info.location().map(|l| format!("{}:{}", l.file(), l.line())).unwrap_or_default();
        LAST_PANIC.with(|p| *p.borrow_mut() = format!("{loc} {msg}").replace(['\n', '\r'], " "));
    }));
}

/// run one harness operation; a panic of the harness itself while observing the implementation
/// (a dump, walk or bookkeeping step that met an error it does not expect) becomes a reported
/// observation instead of ending the run
pub fn guarded<F: FnOnce()>(out: &mut Vec<String>, what: &str, f: F) {
    let r = std::panic::catch_unwind(std::panic::AssertUnwindSafe(f));
    if r.is_err() {
        let m = LAST_PANIC.with(|p| p.borrow().clone());
        let m: String = m.chars().filter(|c| !c.is_control()).take(300).collect();
        out.push(format!("OP mark harness-panic {} :: {}", what.replace(' ', "_"), m.replace(' ', "_")));
        out.push("R mark".to_string());
    }
}


// ---- file-size limit (a way to make SQLite's COMMIT itself fail)
#[repr(C)]
struct RLimit { cur: u64, max: u64 }
extern "C" {
    fn getrlimit(resource: i32, rlim: *mut RLimit) -> i32;
    fn setrlimit(resource: i32, rlim: *const RLimit) -> i32;
    fn signal(signum: i32, handler: usize) -> usize;
}
const RLIMIT_FSIZE: i32 = 1;
const SIGXFSZ: i32 = 25;
const SIG_IGN: usize = 1;

/// Some(bytes): lower the soft RLIMIT_FSIZE of this process (writes beyond it fail with EFBIG, the
/// signal is ignored); None: back to the hard limit
pub fn set_fsize_limit(bytes: Option<u64>) {
    unsafe {
        signal(SIGXFSZ, SIG_IGN);
        let mut cur = RLimit { cur: 0, max: 0 };
        assert_eq!(getrlimit(RLIMIT_FSIZE, &mut cur), 0);
        let new = RLimit { cur: bytes.unwrap_or(cur.max), max: cur.max };
        assert_eq!(setrlimit(RLIMIT_FSIZE, &new), 0);
    }
}
