//! Storage wrappers used by the harness (ordinary code over the public `Storage` /
//! `StorageTxn` traits; no hook in the repository is needed):
//! `LogStore` records every storage call; `Shared` lets several owners (the library `Server`,
//! the `WebServer`, the harness itself) use one storage object.
use std::sync::{Arc, Mutex};
use taskchampion_sync_server_core::{Client, Snapshot, Storage, StorageTxn, Version};
use uuid::Uuid;

pub struct LogStore {
    pub inner: Box<dyn Storage>,
    pub log: Arc<Mutex<Vec<&'static str>>>,
}

impl LogStore {
    pub fn new<S: Storage + 'static>(s: S) -> Self {
        LogStore { inner: Box::new(s), log: Arc::new(Mutex::new(Vec::new())) }
    }
    pub fn take_log(&self) -> Vec<&'static str> {
        std::mem::take(&mut *self.log.lock().unwrap())
    }
}

struct LogTxn<'a> {
    inner: Option<Box<dyn StorageTxn + 'a>>,
    log: Arc<Mutex<Vec<&'static str>>>,
}

impl Storage for LogStore {
    fn txn(&self, client_id: Uuid) -> anyhow::Result<Box<dyn StorageTxn + '_>> {
        self.log.lock().unwrap().push("begin");
        let t = self.inner.txn(client_id)?;
        Ok(Box::new(LogTxn { inner: Some(t), log: self.log.clone() }))
    }
}

impl Drop for LogTxn<'_> {
    fn drop(&mut self) {
        // drop the wrapped transaction first, then record the end
        self.inner = None;
        if let Ok(mut l) = self.log.lock() {
            l.push("end");
        }
    }
}

impl LogTxn<'_> {
    fn note(&self, s: &'static str) {
        self.log.lock().unwrap().push(s);
    }
}

impl StorageTxn for LogTxn<'_> {
    fn get_client(&mut self) -> anyhow::Result<Option<Client>> {
        self.note("get_client");
        self.inner.as_mut().unwrap().get_client()
    }
    fn new_client(&mut self, latest_version_id: Uuid) -> anyhow::Result<()> {
        self.note("new_client");
        self.inner.as_mut().unwrap().new_client(latest_version_id)
    }
    fn set_snapshot(&mut self, snapshot: Snapshot, data: Vec<u8>) -> anyhow::Result<()> {
        self.note("set_snapshot");
        self.inner.as_mut().unwrap().set_snapshot(snapshot, data)
    }
    fn get_snapshot_data(&mut self, version_id: Uuid) -> anyhow::Result<Option<Vec<u8>>> {
        self.note("get_snapshot_data");
        self.inner.as_mut().unwrap().get_snapshot_data(version_id)
    }
    fn get_version_by_parent(&mut self, parent_version_id: Uuid) -> anyhow::Result<Option<Version>> {
        self.note("get_version_by_parent");
        self.inner.as_mut().unwrap().get_version_by_parent(parent_version_id)
    }
    fn get_version(&mut self, version_id: Uuid) -> anyhow::Result<Option<Version>> {
        self.note("get_version");
        self.inner.as_mut().unwrap().get_version(version_id)
    }
    fn add_version(&mut self, version_id: Uuid, parent_version_id: Uuid, history_segment: Vec<u8>) -> anyhow::Result<()> {
        self.note("add_version");
        self.inner.as_mut().unwrap().add_version(version_id, parent_version_id, history_segment)
    }
    fn commit(&mut self) -> anyhow::Result<()> {
        self.note("commit");
        self.inner.as_mut().unwrap().commit()
    }
}

/// one storage object, several owners
#[derive(Clone)]
pub struct Shared(pub Arc<dyn Storage>);

impl Storage for Shared {
    fn txn(&self, client_id: Uuid) -> anyhow::Result<Box<dyn StorageTxn + '_>> {
        self.0.txn(client_id)
    }
}
