//! Canonical numbering of UUIDs (nil -> 0, others by first appearance) and of payloads.
use std::collections::HashMap;
use uuid::Uuid;

#[derive(Default)]
pub struct Canon {
    ids: HashMap<Uuid, u64>,
    next: u64,
    /// every real id ever seen, in canonical order (index = number - 1)
    pub known: Vec<Uuid>,
    /// long payloads: content -> token string
    pub tokens: HashMap<Vec<u8>, String>,
    pub chunk_tokens: HashMap<Vec<u8>, String>,
    next_token: u64,
}

impl Canon {
    pub fn new() -> Self {
        Self::default()
    }
    pub fn id(&mut self, u: Uuid) -> u64 {
        if u.is_nil() {
            return 0;
        }
        if let Some(n) = self.ids.get(&u) {
            return *n;
        }
        self.next += 1;
        self.ids.insert(u, self.next);
        self.known.push(u);
        self.next
    }
    pub fn peek(&self, u: &Uuid) -> Option<u64> {
        if u.is_nil() { Some(0) } else { self.ids.get(u).cloned() }
    }
    pub fn seen(&self, u: &Uuid) -> bool {
        u.is_nil() || self.ids.contains_key(u)
    }
    /// a number no real id has, for model inputs the implementation did not consume
    pub fn unused(&mut self) -> u64 {
        self.id(Uuid::new_v4())
    }
    /// payloads up to 64 bytes are given to the model byte by byte; longer ones as one token
    /// (1000 + k) per distinct content
    pub fn payload(&mut self, d: &[u8]) -> String {
        if d.is_empty() {
            return "-".to_string();
        }
        if d.len() <= 64 {
            return d.iter().map(|b| b.to_string()).collect::<Vec<_>>().join(",");
        }
        if let Some(t) = self.tokens.get(d) {
            return t.clone();
        }
        let t = self.chunk_token(d);
        self.tokens.insert(d.to_vec(), t.clone());
        t
    }
    /// register a body that was uploaded in chunks: the model sees one token per chunk
    pub fn register_chunked(&mut self, whole: &[u8], chunk_tokens: &[String]) {
        // the first registration of a content wins (what the model stored first)
        self.tokens.entry(whole.to_vec()).or_insert_with(|| chunk_tokens.join(","));
    }
    pub fn fresh_token(&mut self) -> String {
        self.next_token += 1;
        format!("{}", 1000 + self.next_token)
    }
    /// content-derived token (FNV-1a), stable across runs and processes
    pub fn content_token(d: &[u8]) -> String {
        let mut h: u64 = 0xcbf29ce484222325;
        for b in d {
            h ^= *b as u64;
            h = h.wrapping_mul(0x100000001b3);
        }
        h ^= d.len() as u64;
        format!("{}", 1_000_000 + (h % 1_000_000_000_000_000))
    }
    /// one token per distinct chunk content (so identical uploads get identical tokens)
    pub fn chunk_token(&mut self, chunk: &[u8]) -> String {
        if let Some(t) = self.chunk_tokens.get(chunk) {
            return t.clone();
        }
        let t = Self::content_token(chunk);
        self.chunk_tokens.insert(chunk.to_vec(), t.clone());
        t
    }
}

/// splitmix64: every random choice of the harness derives from one state
pub struct Rng(pub u64);
impl Rng {
    pub fn next(&mut self) -> u64 {
        self.0 = self.0.wrapping_add(0x9E3779B97F4A7C15);
        let mut z = self.0;
        z = (z ^ (z >> 30)).wrapping_mul(0xBF58476D1CE4E5B9);
        z = (z ^ (z >> 27)).wrapping_mul(0x94D049BB133111EB);
        z ^ (z >> 31)
    }
    pub fn below(&mut self, n: u64) -> u64 {
        if n == 0 {
            0
        } else {
            self.next() % n
        }
    }
    pub fn bytes(&mut self, len: usize) -> Vec<u8> {
        let mut v = Vec::with_capacity(len);
        while v.len() < len {
            let x = self.next().to_le_bytes();
            let take = std::cmp::min(8, len - v.len());
            v.extend_from_slice(&x[..take]);
        }
        v
    }
}
