//! L3: the real `taskchampion-sync-server` executable (built from /repo's working tree) on
//! loopback sockets: flags / environment variables, raw HTTP/1.1 over TcpStream (so that chunked
//! bodies, odd headers and oversize bodies can be sent), SIGKILL and restart on the same data
//! directory.  Dumps and backdating go through a second SqliteStorage on that directory.
use crate::http::{HCtx, Prepared, RawResult};
use crate::l1::Backend;
use std::io::{BufRead, Read, Write};
use std::net::{TcpListener, TcpStream};
use std::process::{Child, Command, Stdio};
use std::time::{Duration, Instant};
use uuid::Uuid;

pub struct BinCtx {
    pub h: HCtx,
    pub child: Option<Child>,
    pub addrs: Vec<String>,
    pub args: Vec<std::ffi::OsString>,
    pub envs: Vec<(String, std::ffi::OsString)>,
    pub bin: String,
    /// persistent (keep-alive) connections, one per listen address index
    pub conns: std::collections::HashMap<usize, TcpStream>,
    /// working directory of the server process (None: the harness's own)
    pub cwd: Option<std::path::PathBuf>,
    /// uploads whose head has been sent and whose body is still outstanding (see `stall`)
    pub stalled: Vec<TcpStream>,
}

fn free_port() -> u16 {
    TcpListener::bind("127.0.0.1:0").unwrap().local_addr().unwrap().port()
}

/// send one prepared request over a fresh connection; chunks become `Transfer-Encoding: chunked`
/// when there are several, `Content-Length` otherwise
pub fn send_raw(addr: &str, prep: &Prepared) -> std::thread::Result<RawResult> {
    std::panic::catch_unwind(std::panic::AssertUnwindSafe(|| {
        let mut s = TcpStream::connect(addr).expect("connect");
        s.set_read_timeout(Some(Duration::from_secs(60))).ok();
        let mut head = format!("{} {} HTTP/{}\r\nHost: {}\r\nConnection: close\r\n", prep.method, prep.uri, if prep.http10 { "1.0" } else { "1.1" }, addr).into_bytes();
        if let Some(c) = &prep.cid_bytes {
            head.extend_from_slice(b"X-Client-Id: ");
            head.extend_from_slice(c);
            head.extend_from_slice(b"\r\n");
        }
        if let Some(ct) = &prep.ct_val {
            head.extend_from_slice(format!("Content-Type: {ct}\r\n").as_bytes());
        }
        for (n, v) in &prep.extra {
            head.extend_from_slice(format!("{n}: {v}\r\n").as_bytes());
        }
        let chunked = (prep.chunks.len() > 1 || prep.broken) && !prep.http10;
        if chunked {
            head.extend_from_slice(b"Transfer-Encoding: chunked\r\n\r\n");
        } else {
            let n: usize = prep.chunks.iter().map(|c| c.len()).sum();
            head.extend_from_slice(format!("Content-Length: {n}\r\n\r\n").as_bytes());
        }
        let mut write_all = || -> std::io::Result<()> {
            s.write_all(&head)?;
            if chunked {
                for (ci, c) in prep.chunks.iter().enumerate() {
                    if c.is_empty() {
                        continue;
                    }
                    if prep.pause_ms > 0 && ci + 1 == prep.chunks.len() {
                        s.flush()?;
                        std::thread::sleep(Duration::from_millis(prep.pause_ms));
                    }
                    s.write_all(format!("{:x}\r\n", c.len()).as_bytes())?;
                    s.write_all(c)?;
                    s.write_all(b"\r\n")?;
                }
                if prep.broken {
                    // corrupt framing where the next chunk size should be
                    s.write_all(b"zz-not-a-chunk-size\r\n")?;
                } else {
                    s.write_all(b"0\r\n\r\n")?;
                }
            } else {
                for c in &prep.chunks {
                    s.write_all(c)?;
                }
            }
            s.flush()
        };
        // the server may answer (and close) before the whole body is written: ignore write errors
        let _ = write_all();
        let mut buf = Vec::new();
        let _ = s.read_to_end(&mut buf);
        let split = buf.windows(4).position(|w| w == b"\r\n\r\n").expect("no header end in response");
        let head_txt = String::from_utf8_lossy(&buf[..split]).to_string();
        let mut body = buf[split + 4..].to_vec();
        let mut lines = head_txt.split("\r\n");
        let status: u16 = lines.next().unwrap().split_whitespace().nth(1).unwrap().parse().unwrap();
        let mut hdrs: Vec<(String, Vec<u8>)> = vec![];
        for l in lines {
            if let Some((k, v)) = l.split_once(':') {
                hdrs.push((k.trim().to_ascii_lowercase(), v.trim().as_bytes().to_vec()));
            }
        }
        let get = |n: &str| hdrs.iter().find(|(k, _)| k == n).map(|(_, v)| v.clone());
        if get("transfer-encoding").map(|v| v == b"chunked").unwrap_or(false) {
            // de-chunk
            let mut out = vec![];
            let mut i = 0;
            while i < body.len() {
                let e = body[i..].windows(2).position(|w| w == b"\r\n").map(|p| i + p).unwrap_or(body.len());
                let n = usize::from_str_radix(String::from_utf8_lossy(&body[i..e]).trim(), 16).unwrap_or(0);
                if n == 0 {
                    break;
                }
                out.extend_from_slice(&body[e + 2..e + 2 + n]);
                i = e + 2 + n + 2;
            }
            body = out;
        }
        Ok((status, get("x-version-id"), get("x-parent-version-id"), get("x-snapshot-request"), get("content-type"), get("cache-control"), body))
    }))
}

/// send a request with a body of known length over a PERSISTENT connection (kept open for the next
/// request, whoever the next client is — what a pooling reverse proxy does); None = the connection
/// could not be used (the caller falls back to a fresh one)
pub fn send_keepalive(s: &mut TcpStream, addr: &str, prep: &Prepared) -> Option<RawResult> {
    let mut head = format!("{} {} HTTP/1.1\r\nHost: {}\r\nConnection: keep-alive\r\n", prep.method, prep.uri, addr).into_bytes();
    if let Some(c) = &prep.cid_bytes {
        head.extend_from_slice(b"X-Client-Id: ");
        head.extend_from_slice(c);
        head.extend_from_slice(b"\r\n");
    }
    if let Some(ct) = &prep.ct_val {
        head.extend_from_slice(format!("Content-Type: {ct}\r\n").as_bytes());
    }
    for (n, v) in &prep.extra {
        head.extend_from_slice(format!("{n}: {v}\r\n").as_bytes());
    }
    let body: Vec<u8> = prep.chunks.concat();
    head.extend_from_slice(format!("Content-Length: {}\r\n\r\n", body.len()).as_bytes());
    s.set_read_timeout(Some(Duration::from_secs(3))).ok();
    s.write_all(&head).ok()?;
    s.write_all(&body).ok()?;
    s.flush().ok()?;
    // response head
    let mut buf: Vec<u8> = vec![];
    let mut one = [0u8; 1];
    while !buf.ends_with(b"\r\n\r\n") {
        let n = s.read(&mut one).ok()?;
        if n == 0 {
            return None;
        }
        buf.push(one[0]);
        if buf.len() > 65536 {
            return None;
        }
    }
    let head_txt = String::from_utf8_lossy(&buf).to_string();
    let mut lines = head_txt.split("\r\n");
    let status: u16 = lines.next()?.split_whitespace().nth(1)?.parse().ok()?;
    let mut hdrs: Vec<(String, Vec<u8>)> = vec![];
    for l in lines {
        if let Some((k, v)) = l.split_once(':') {
            hdrs.push((k.trim().to_ascii_lowercase(), v.trim().as_bytes().to_vec()));
        }
    }
    let get = |n: &str| hdrs.iter().find(|(k, _)| k == n).map(|(_, v)| v.clone());
    let n: usize = get("content-length").and_then(|v| String::from_utf8_lossy(&v).parse().ok())?;
    let mut body = vec![0u8; n];
    s.read_exact(&mut body).ok()?;
    Some(Ok((status, get("x-version-id"), get("x-parent-version-id"), get("x-snapshot-request"), get("content-type"), get("cache-control"), body)))
}

impl BinCtx {
    pub fn new(seed: u64) -> Self {
        let bin = std::env::var("TSS_SERVER_BIN").expect("TSS_SERVER_BIN");
        BinCtx { h: HCtx::new(Backend::Sqlite, seed), child: None, addrs: vec![], args: vec![], envs: vec![], bin, conns: std::collections::HashMap::new(), cwd: None, stalled: vec![] }
    }

    /// boot listen=flag:N|env:N dir=flag|env allow=none|flag:a,b|env:a,b|flagempty versions=default|flag:K|env:K days=default|flag:K|env:K
    /// boot: ports are chosen by asking the kernel for a free one and letting go of it again; on a busy machine another
    /// process may take it before the server binds.  A start that fails is therefore tried again (fresh ports, up to
    /// three times) before it is reported: a configuration the code cannot start fails every time.
    pub fn boot(&mut self, toks: &[&str]) {
        let mut last: Vec<String> = vec![];
        for attempt in 0..3 {
            let at = self.h.l1.out.len();
            let ok = self.boot_once(toks);
            if ok || attempt == 2 {
                return;
            }
            last = self.h.l1.out.split_off(at);
            std::thread::sleep(Duration::from_millis(300));
        }
        let _ = last;
    }

    fn boot_once(&mut self, toks: &[&str]) -> bool {
        let mut args: Vec<std::ffi::OsString> = vec![];
        let mut envs: Vec<(String, std::ffi::OsString)> = vec![];
        let mut model: Vec<String> = vec![];
        let mut extra_note: Option<String> = None;
        // (configuration without the guessed values, should the executable not accept them)
        let mut base_args: Option<(Vec<std::ffi::OsString>, Vec<(String, std::ffi::OsString)>)> = None;
        let mut guessed = false;
        self.addrs.clear();
        for t in toks {
            let (k, v) = t.split_once('=').unwrap();
            let (src, val) = v.split_once(':').unwrap_or((v, ""));
            match k {
                "listen" => {
                    // a trailing h: the addresses differ in the host only (127.0.0.1, 127.0.0.2, ... on ONE port)
                    let (val, same_port) = match val.strip_suffix('h') { Some(x) => (x, true), None => (val, false) };
                    // a trailing 6: the last address is the IPv6 loopback, written the way URLs and most tools write it: [::1]:PORT
                    let (val, v6) = match val.strip_suffix('6') { Some(x) => (x, true), None => (val, false) };
                    let n: usize = val.parse().unwrap_or(1);
                    let list: Vec<String> = if v6 {
                        let mut l: Vec<String> = (0..n.saturating_sub(1)).map(|_| format!("127.0.0.1:{}", free_port())).collect();
                        let p6 = TcpListener::bind("[::1]:0").map(|s| s.local_addr().unwrap().port()).unwrap_or_else(|_| free_port());
                        l.push(format!("[::1]:{p6}"));
                        l
                    } else if same_port {
                        let p = free_port();
                        (0..n).map(|i| format!("127.0.0.{}:{}", i + 1, p)).collect()
                    } else {
                        (0..n).map(|_| format!("127.0.0.1:{}", free_port())).collect()
                    };
                    self.addrs = list.clone();
                    match src {
                        "flag" => { args.push("--listen".into()); args.push(list.join(",").into()); }
                        "flags" => { for a in &list { args.push("--listen".into()); args.push(a.clone().into()); } }
                        "env" => envs.push(("LISTEN".into(), list.join(",").into())),
                        other => panic!("listen src {other}"),
                    }
                    model.push(format!("listen={src}:{n}"));
                }
                "dir" => {
                    // a trailing 8 asks for a directory whose name is not valid UTF-8 (Linux permits it)
                    let (src, raw) = match src.strip_suffix('8') { Some(x) => (x, true), None => (src, false) };
                    if raw {
                        use std::os::unix::ffi::OsStrExt;
                        let p = self.h.l1.data_dir().join(std::ffi::OsStr::from_bytes(b"data-\xe9\xff\xfe-dir"));
                        self.h.l1.keep_dir = Some(p);
                        self.h.l1.open(false);
                        self.h.rebuild();
                    }
                    // a trailing s: a directory name with characters that mean something elsewhere (URI, query, SQL)
                    let (src, special) = match src.strip_suffix('s') { Some(x) => (x, true), None => (src, false) };
                    // a trailing r: the directory is given RELATIVE to the directory the server is started in
                    let (src, rel) = match src.strip_suffix('r') { Some(x) => (x, true), None => (src, false) };
                    if special || rel {
                        let base = self.h.l1.data_dir();
                        let name = if special { "sync#2 %2Fdata?x=1&y" } else { "rel-data" };
                        let p = if rel { base.join(name).join("db") } else { base.join(name) };
                        self.h.l1.keep_dir = Some(p);
                        self.h.l1.open(false);
                        self.h.rebuild();
                        if rel { self.cwd = Some(base.clone()); }
                    }
                    let dir = if rel {
                        self.h.l1.data_dir().strip_prefix(self.cwd.as_ref().unwrap()).unwrap().as_os_str().to_os_string()
                    } else {
                        self.h.l1.data_dir().into_os_string()
                    };
                    match src {
                        "flag" => { args.push("--data-dir".into()); args.push(dir.clone()); }
                        "env" => envs.push(("DATA_DIR".into(), dir.clone())),
                        "both" => { args.push("--data-dir".into()); args.push(dir.clone()); envs.push(("DATA_DIR".into(), "/nonexistent-should-be-ignored".into())); }
                        other => panic!("dir src {other}"),
                    }
                    model.push(format!("dir={src}"));
                }
                "allow" => {
                    let ids: Vec<String> = val.split(',').filter(|s| !s.is_empty()).map(|c| self.h.l1.client(c.parse().unwrap()).to_string()).collect();
                    let canon: Vec<String> = val.split(',').filter(|s| !s.is_empty()).map(|c| { let u = self.h.l1.client(c.parse().unwrap()); self.h.l1.canon.id(u).to_string() }).collect();
                    match src {
                        "none" => {}
                        "flag" => { args.push("--allow-client-id".into()); args.push(ids.join(",").into()); }
                        "flags" => { for a in &ids { args.push("--allow-client-id".into()); args.push(a.clone().into()); } }
                        "env" => envs.push(("CLIENT_ID".into(), ids.join(",").into())),
                        other => panic!("allow src {other}"),
                    }
                    model.push(format!("allow={src}:{}", if canon.is_empty() { "-".to_string() } else { canon.join(",") }));
                    self.h.allow = if src == "none" { None } else { Some(val.split(',').filter(|s| !s.is_empty()).map(|c| c.parse().unwrap()).collect()) };
                }
                "versions" => {
                    match src {
                        "default" => {}
                        "flag" => { args.push("--snapshot-versions".into()); args.push(val.into()); }
                        "env" => envs.push(("SNAPSHOT_VERSIONS".into(), val.into())),
                        "both" => { let (a, b) = val.split_once('/').unwrap(); args.push("--snapshot-versions".into()); args.push(a.into()); envs.push(("SNAPSHOT_VERSIONS".into(), b.into())); }
                        other => panic!("versions src {other}"),
                    }
                    model.push(format!("versions={src}:{}", if val.is_empty() { "-" } else { val }));
                }
                "extra" => {
                    // extra=auto:flag|env — every boolean switch the binary advertises in --help that the model
                    // does not know is switched ON (by flag, or by the environment variable --help names for it).
                    // The properties quantify over every configuration; the model knows the options listed below.
                    let known = ["listen", "data-dir", "allow-client-id", "snapshot-versions", "snapshot-days", "help", "version"];
                    let help = Command::new(&self.bin).arg("--help").env_clear().output().map(|o| String::from_utf8_lossy(&o.stdout).to_string()).unwrap_or_default();
                    let mut found: Vec<String> = vec![];
                    base_args = Some((args.clone(), envs.clone()));
                    for line in help.lines() {
                        let l = line.trim_start();
                        if !l.starts_with('-') { continue; }
                        let Some(i) = l.find("--") else { continue };
                        let rest = &l[i + 2..];
                        let name: String = rest.chars().take_while(|c| c.is_ascii_alphanumeric() || *c == '-').collect();
                        if name.is_empty() || known.contains(&name.as_str()) { continue; }
                        let after = rest[name.len()..].trim_start();
                        let envname = l.find("[env: ").map(|j| l[j + 6..].chars().take_while(|c| *c != '=' && *c != ']').collect::<String>());
                        if after.starts_with('<') || after.starts_with('=') || after.starts_with('[') && !after.starts_with("[env") {
                            // takes a value.  Only with `autoval` (used where the property speaks about EVERY response under any
                            // configuration, C20), and only a value that can be guessed from what --help says: a small number
                            // where the default is a number, a path prefix where the name says prefix / path / root / base
                            if src != "autoval" { continue; }
                            let dflt = l.find("[default: ").map(|j| l[j + 10..].chars().take_while(|c| *c != ']').collect::<String>());
                            let lname = format!("{} {}", name, after).to_ascii_lowercase();
                            let guess = if dflt.as_deref().map(|d| !d.is_empty() && d.chars().all(|c| c.is_ascii_digit())).unwrap_or(false) { Some("1") }
                                        else if ["prefix", "path", "root", "base"].iter().any(|w| lname.contains(w)) && !lname.contains("file") && !lname.contains("dir") { Some("/tss") }
                                        else { None };
                            let Some(g) = guess else { continue };
                            match (val, envname) {
                                ("env", Some(e)) => { envs.push((e.clone(), g.into())); found.push(format!("{e}={g}")); }
                                _ => { args.push(format!("--{name}").into()); args.push(g.into()); found.push(format!("--{name}={g}")); }
                            }
                            guessed = true;
                            continue;
                        }
                        match (val, envname) {
                            ("env", Some(e)) => { envs.push((e.clone(), "true".into())); found.push(format!("{e}=true")); }
                            _ => { args.push(format!("--{name}").into()); found.push(format!("--{name}")); }
                        }
                    }
                    extra_note = Some(if found.is_empty() { "-".to_string() } else { found.join(",") });
                }
                "log" => {
                    // RUST_LOG of the server process (default: error)
                    envs.push(("RUST_LOG".into(), v.into()));
                }
                "days" => {
                    match src {
                        "default" => {}
                        "flag" => { args.push("--snapshot-days".into()); args.push(val.into()); }
                        "env" => envs.push(("SNAPSHOT_DAYS".into(), val.into())),
                        other => panic!("days src {other}"),
                    }
                    model.push(format!("days={src}:{}", if val.is_empty() { "-" } else { val }));
                }
                other => panic!("boot key {other}"),
            }
        }
        self.args = args;
        self.envs = envs;
        let mut ok = self.spawn();
        if !ok && guessed {
            // a guessed value the executable does not accept is the rig's mistake, not the code's: start without it
            // (tokens after `extra=` in the boot line are appended to the base configuration)
            if let Some((a0, e0)) = base_args {
                let extra_a: Vec<std::ffi::OsString> = vec![];
                let _ = extra_a;
                // keep everything the later tokens added: they come after the guessed ones
                self.args = a0;
                self.envs = e0;
                ok = self.spawn();
                extra_note = Some("guessed-values-rejected".into());
            }
        }
        if let Some(n) = extra_note {
            self.h.l1.out.push(format!("OP mark extra-options {n}"));
        }
        self.h.l1.out.push(format!("OP boot {}", model.join(" ")));
        self.h.l1.out.push(format!("R booted {} addrs={}", if ok { "up" } else { "FAILED" }, self.addrs.len()));
        ok
    }

    fn spawn(&mut self) -> bool {
        self.kill();
        let mut cmd = Command::new(&self.bin);
        cmd.args(&self.args).env_clear().env("RUST_LOG", "error").env("PATH", "/usr/bin:/bin");   // (a `log=` token of the configuration overrides RUST_LOG below)
        for (k, v) in &self.envs {
            cmd.env(k, v);
        }
        if let Some(d) = &self.cwd {
            cmd.current_dir(d);
        }
        cmd.stdin(Stdio::null()).stdout(Stdio::null()).stderr(Stdio::null());
        let child = cmd.spawn().expect("spawn server");
        self.child = Some(child);
        // wait until every address accepts connections
        let deadline = Instant::now() + Duration::from_secs(40);
        for a in self.addrs.clone() {
            loop {
                if TcpStream::connect(&a).is_ok() {
                    break;
                }
                if Instant::now() > deadline {
                    return false;
                }
                if let Some(c) = self.child.as_mut() {
                    if let Ok(Some(_)) = c.try_wait() {
                        return false;
                    }
                }
                std::thread::sleep(Duration::from_millis(30));
            }
        }
        true
    }

    pub fn kill(&mut self) {
        if let Some(mut c) = self.child.take() {
            let _ = c.kill(); // SIGKILL
            let _ = c.wait();
        }
    }

    pub fn exec(&mut self, toks: &[&str]) {
        match toks {
            ["boot", rest @ ..] => self.boot(rest),
            ["emptydb"] => {
                // what a first start that died right after creating the database file leaves behind: the
                // file exists and is empty (no header, no tables)
                let d = self.h.l1.data_dir();
                for f in ["taskchampion-sync-server.sqlite3", "taskchampion-sync-server.sqlite3-wal", "taskchampion-sync-server.sqlite3-shm"] {
                    let _ = std::fs::remove_file(d.join(f));
                }
                std::fs::write(d.join("taskchampion-sync-server.sqlite3"), b"").expect("emptydb");
                self.h.l1.out.push("OP mark emptydb".into());
                self.h.l1.out.push("R mark".into());
            }
            ["bootdir", path] => {
                // start the server on an EXISTING data directory that nothing else has opened since it
                // was left behind (no library call of the harness touches it before the server does)
                let a = format!("127.0.0.1:{}", free_port());
                self.addrs = vec![a.clone()];
                self.args = vec!["--data-dir".into(), (*path).into(), "--listen".into(), a.into()];
                self.envs = vec![];
                let ok = self.spawn();
                self.h.l1.out.push(format!("OP mark bootdir up={}", ok as u8));
                self.h.l1.out.push("R mark".into());
            }
            ["bootocc", n, k, src] => {
                // N listen addresses of which the K-th cannot be bound (another process holds the port).
                // The server either refuses to start or serves on EVERY address it was given; running on
                // the rest while saying nothing is neither.
                let n: usize = n.parse().unwrap();
                let k: usize = k.parse().unwrap();
                let holder = TcpListener::bind("127.0.0.1:0").expect("holder");
                let held = holder.local_addr().unwrap().port();
                let list: Vec<String> = (0..n).map(|i| format!("127.0.0.1:{}", if i == k { held } else { free_port() })).collect();
                self.kill();
                let mut cmd = Command::new(&self.bin);
                cmd.env_clear().env("RUST_LOG", "error").env("PATH", "/usr/bin:/bin");
                cmd.arg("--data-dir").arg(self.h.l1.data_dir());
                match *src {
                    "flag" => { cmd.arg("--listen").arg(list.join(",")); }
                    "flags" => { for a in &list { cmd.arg("--listen").arg(a); } }
                    _ => { cmd.env("LISTEN", list.join(",")); }
                }
                cmd.stdin(Stdio::null()).stdout(Stdio::null()).stderr(Stdio::null());
                let mut child = cmd.spawn().expect("spawn server");
                // give it time to either come up or give up
                let deadline = Instant::now() + Duration::from_secs(6);
                let mut exited = false;
                let mut served = 0;
                loop {
                    if let Ok(Some(_)) = child.try_wait() {
                        exited = true;
                        break;
                    }
                    served = list.iter().enumerate().filter(|(i, a)| *i != k && TcpStream::connect(a.as_str()).is_ok()).count();
                    if served == n - 1 || Instant::now() > deadline {
                        // one more moment: a server that is about to exit because of the bind failure
                        std::thread::sleep(Duration::from_millis(300));
                        if let Ok(Some(_)) = child.try_wait() {
                            exited = true;
                        }
                        break;
                    }
                    std::thread::sleep(Duration::from_millis(30));
                }
                let _ = child.kill();
                let _ = child.wait();
                drop(holder);
                self.h.l1.out.push(format!("OP mark bootocc n={n} k={k} src={src} exited={} served={}", exited as u8, if exited { 0 } else { served }));
                self.h.l1.out.push("R mark".into());
            }
            ["usebin", "release"] => {
                // from here on the executable is the release build (when the engine has built one)
                if let Ok(b) = std::env::var("TSS_SERVER_BIN_RELEASE") {
                    if !b.is_empty() { self.bin = b; }
                }
                self.h.l1.out.push("OP mark usebin release".into());
                self.h.l1.out.push("R mark".into());
            }
            ["stall", n] => {
                // N uploads in flight at once: on N further connections the head of an upload (add-version and
                // add-snapshot alternately, clients nobody else uses) and the first byte of its 64-byte body are
                // sent; the rest stays outstanding until `unstall`, which closes the connections (the uploads
                // are then incomplete: refused, nothing stored).  What other clients are answered meanwhile is
                // none of these uploads' business.
                let n: usize = n.parse().unwrap();
                let addr = self.addrs[0].clone();
                let mut opened = 0;
                for i in 0..n {
                    if let Ok(mut st) = TcpStream::connect(&addr) {
                        let cid = Uuid::from_u128(0x5a5a_0000_0000_4000_8000_0000_0000_0000u128 + i as u128);
                        let (route, ct) = if i % 2 == 0 { ("add-version", "application/vnd.taskchampion.history-segment") } else { ("add-snapshot", "application/vnd.taskchampion.snapshot") };
                        let head = format!("POST /v1/client/{route}/{} HTTP/1.1\r\nHost: {addr}\r\nX-Client-Id: {cid}\r\nContent-Type: {ct}\r\nContent-Length: 64\r\n\r\nx", Uuid::nil());
                        if st.write_all(head.as_bytes()).is_ok() && st.flush().is_ok() {
                            opened += 1;
                            self.stalled.push(st);
                        }
                    }
                }
                // let the server take the heads in
                std::thread::sleep(Duration::from_millis(300));
                self.h.l1.out.push(format!("OP mark stall {n} opened={opened}"));
                self.h.l1.out.push("R mark".into());
            }
            ["unstall"] => {
                let n = self.stalled.len();
                // whatever the server has said on those connections meanwhile (it may have given up on a stalled
                // upload) is a response like any other
                let mut answered = 0;
                let mut without_cc = 0;
                let mut first = String::from("-");
                for st in self.stalled.iter_mut() {
                    let _ = st.set_read_timeout(Some(Duration::from_millis(150)));
                    let mut buf = vec![0u8; 4096];
                    if let Ok(k) = st.read(&mut buf) {
                        if k > 0 {
                            answered += 1;
                            let txt = String::from_utf8_lossy(&buf[..k]).to_ascii_lowercase();
                            let head = txt.split("\r\n\r\n").next().unwrap_or("").to_string();
                            if !(head.contains("cache-control:") && head.contains("no-store")) {
                                without_cc += 1;
                                if first == "-" { first = head.lines().next().unwrap_or("").replace(' ', "_"); }
                            }
                        }
                    }
                }
                self.stalled.clear();
                std::thread::sleep(Duration::from_millis(200));
                self.h.l1.out.push(format!("OP mark unstall {n} answered={answered} without_cache_control={without_cc} first={first}"));
                self.h.l1.out.push("R mark".into());
                return;
            }
            ["unstall-old"] => {
                let n = self.stalled.len();
                self.stalled.clear();
                std::thread::sleep(Duration::from_millis(200));
                self.h.l1.out.push(format!("OP mark unstall {n}"));
                self.h.l1.out.push("R mark".into());
            }
            ["kill"] => {
                self.stalled.clear();
                self.conns.clear();
                self.kill();
                self.h.l1.out.push("OP mark kill".into());
                self.h.l1.out.push("R mark".into());
            }
            ["dirstat"] => {
                // what an operator sees on disk: is the database file in the directory that was
                // given, and did anything else appear next to that directory?
                let real = self.h.l1.data_dir();
                let dbfile = real.join("taskchampion-sync-server.sqlite3").exists();
                let extra = match (&self.h.l1.keep_dir, real.parent()) {
                    (Some(_), Some(parent)) => std::fs::read_dir(parent)
                        .map(|rd| rd.filter_map(|e| e.ok()).filter(|e| e.path().is_dir() && Some(e.file_name().as_os_str()) != real.file_name()).count())
                        .unwrap_or(0),
                    _ => 0,
                };
                self.h.l1.out.push(format!("OP mark datadir dbfile={} extra={}", dbfile as u8, extra));
                self.h.l1.out.push("R mark".into());
            }
            ["restart"] => {
                // (the ports were given up by the killed process a moment ago; on a busy machine someone else may hold
                // one briefly: try again before calling it a failure)
                let mut ok = self.spawn();
                for _ in 0..2 {
                    if ok { break; }
                    std::thread::sleep(Duration::from_millis(1500));
                    ok = self.spawn();
                }
                // the harness's own connection to the directory is re-created as well
                self.h.l1.open(false);
                self.h.l1.out.push("OP reopen".into());
                self.h.l1.out.push(format!("R {}", if ok { "unit" } else { "RESTART-FAILED" }));
            }
            [first, rest @ ..] if first.starts_with("httpk@") => {
                // the same, over the persistent connection of that address
                let k: usize = first[6..].parse().unwrap();
                let prep = self.h.build(rest);
                let now = chrono::Utc::now().timestamp();
                let idx = k % self.addrs.len().max(1);
                let addr = self.addrs.get(idx).cloned().unwrap_or_default();
                let simple = prep.chunks.len() <= 1 && !prep.broken && !prep.http10;
                let mut res: Option<RawResult> = None;
                if simple {
                    if !self.conns.contains_key(&idx) {
                        if let Ok(c) = TcpStream::connect(&addr) {
                            self.conns.insert(idx, c);
                        }
                    }
                    if let Some(c) = self.conns.get_mut(&idx) {
                        res = send_keepalive(c, &addr, &prep);
                    }
                    // a refusal may leave the connection unusable (the server answers without reading the
                    // body and closes): start a new one for the next request
                    let refused = matches!(&res, Some(Ok((st, ..))) if *st >= 400);
                    if res.is_none() || refused {
                        self.conns.remove(&idx);
                    }
                }
                let raw = match res {
                    Some(r) => Ok(r),
                    None => send_raw(&addr, &prep),
                };
                self.h.finish(prep, raw, now, None);
            }
            [first, rest @ ..] if first.starts_with("http@") => {
                let k: usize = first[5..].parse().unwrap();
                let prep = self.h.build(rest);
                let now = chrono::Utc::now().timestamp();
                let addr = self.addrs.get(k % self.addrs.len().max(1)).cloned().unwrap_or_default();
                let raw = send_raw(&addr, &prep);
                self.h.finish(prep, raw, now, None);
            }
            other => self.h.l1.exec(other),
        }
    }
}

impl Drop for BinCtx {
    fn drop(&mut self) {
        self.kill();
    }
}

/// `harness bin`: symbolic cases on stdin, OP/R lines on stdout
pub fn main_bin(seed: u64) {
    crate::store::install_panic_recorder();
    let stdin = std::io::stdin();
    let stdout = std::io::stdout();
    let mut w = std::io::BufWriter::new(stdout.lock());
    let mut ctx: Option<BinCtx> = None;
    let mut k = 0u64;
    for line in stdin.lock().lines() {
        let line = line.unwrap();
        let toks: Vec<&str> = line.split_whitespace().collect();
        match toks.as_slice() {
            [] => {}
            ["case", name] => {
                k += 1;
                ctx = Some(BinCtx::new(seed.wrapping_add(k.wrapping_mul(0x9E37))));
                writeln!(w, "# case {name}").unwrap();
                writeln!(w, "OP reset sqlite").unwrap();
            }
            ["end"] => {
                ctx = None;
            }
            other => {
                let c = ctx.as_mut().expect("op outside case");
                let what = other.join(" ");
                let mut extra: Vec<String> = vec![];
                crate::store::guarded(&mut extra, &what, || c.exec(other));
                c.h.l1.out.append(&mut extra);
                for l in c.h.l1.out.drain(..) {
                    writeln!(w, "{l}").unwrap();
                }
                w.flush().unwrap();
            }
        }
    }
    w.flush().unwrap();
}
