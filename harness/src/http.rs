//! L2: requests through the real actix handlers in process
//! (`App::new().configure(|c| webserver.config(c))` + `test::call_service`), storage wrapped in
//! `LogStore` so that every storage call of a request is recorded, shared with a library-level
//! `Server` (l1::Ctx) so that dumps / backdating / walks see the same store.
//!
//! The generator chooses the CLASS of every request part and this module builds raw bytes of
//! that class; the class is what the model is told.  Nothing here parses bytes to find a class.
use crate::l1::{Backend, Ctx};
use actix_web::{http::Method, test, App};
use std::collections::HashSet;
use std::io::{BufRead, Write};
use taskchampion_sync_server::WebServer;
use taskchampion_sync_server_core::ServerConfig;
use uuid::Uuid;

pub struct Prepared {
    pub method: String,
    pub uri: String,
    pub cid_bytes: Option<Vec<u8>>,
    pub ct_val: Option<String>,
    pub chunks: Vec<Vec<u8>>,
    /// the body stream yields its chunks and then an ERROR instead of a clean end
    pub broken: bool,
    /// the request line says HTTP/1.0
    pub http10: bool,
    pub op_prefix: String,
    pub route_class: String,
    pub seg_class: String,
    pub cid_class: String,
    /// further request headers (name, value) that a client, a proxy or a browser may add
    pub extra: Vec<(String, String)>,
    /// the client pauses this many milliseconds before it sends the last chunk of the body
    pub pause_ms: u64,
}

/// request headers a client, proxy or browser may add; none of them is part of the protocol
pub fn extra_headers(key: &str) -> Vec<(String, String)> {
    let h = |n: &str, v: &str| (n.to_string(), v.to_string());
    match key {
        "ae-none" => vec![h("Accept-Encoding", "identity;q=0")],
        "ae-star0" => vec![h("Accept-Encoding", "*;q=0")],
        "ae-compress" => vec![h("Accept-Encoding", "compress, identity;q=0")],
        "ae-gzip" => vec![h("Accept-Encoding", "gzip, deflate, br")],
        "accept-json" => vec![h("Accept", "application/json")],
        "accept-none" => vec![h("Accept", "image/png;q=1.0, */*;q=0")],
        "range" => vec![h("Range", "bytes=0-0")],
        "inm" => vec![h("If-None-Match", "*"), h("If-Modified-Since", "Thu, 01 Jan 2037 00:00:00 GMT")],
        "cache" => vec![h("Cache-Control", "max-age=3600"), h("Pragma", "cache")],
        "origin" => vec![h("Origin", "https://example.org"), h("Access-Control-Request-Method", "POST")],
        "fwd" => vec![h("X-Forwarded-For", "10.0.0.1"), h("Forwarded", "for=10.0.0.1;proto=https"), h("Via", "1.1 proxy")],
        // a client (or a proxy in front of the server) claiming that the request comes from the server's own host
        "xff-loop" => vec![h("X-Forwarded-For", "127.0.0.1")],
        "xff-loop2" => vec![h("X-Forwarded-For", "127.0.0.1, 10.1.2.3")],
        "xff-v6" => vec![h("X-Forwarded-For", "::1")],
        "fwd-loop" => vec![h("Forwarded", "for=127.0.0.1")],
        "fwd-v6" => vec![h("Forwarded", "for=\"[::1]:4711\";proto=http")],
        "xri-loop" => vec![h("X-Real-IP", "127.0.0.1"), h("X-Forwarded-Host", "localhost"), h("X-Forwarded-Proto", "https")],
        // an upload announcing a content coding (the protocol knows none)
        "ce-gzip" => vec![h("Content-Encoding", "gzip")],
        "ce-xgzip" => vec![h("Content-Encoding", "x-gzip")],
        "ce-deflate" => vec![h("Content-Encoding", "deflate")],
        "ce-identity" => vec![h("Content-Encoding", "identity")],
        "ce-br" => vec![h("Content-Encoding", "br")],
        "ce-zstd" => vec![h("Content-Encoding", "zstd")],
        "te" => vec![h("TE", "trailers"), h("Accept-Charset", "utf-16;q=1, *;q=0"), h("Accept-Language", "tlh")],
        other => panic!("bad extra header key {other}"),
    }
}

type Hdr = Option<Vec<u8>>;
pub type RawResult = Result<(u16, Hdr, Hdr, Hdr, Hdr, Hdr, Vec<u8>), (u16, Hdr)>;

/// run one prepared request through the real handlers: its own actix System and App instance
/// sharing the WebServer (the way HttpServer workers share state); callable from any thread
pub fn run_request(web: WebServer, prep: &Prepared) -> std::thread::Result<RawResult> {
    let method = Method::from_bytes(prep.method.as_bytes()).unwrap();
    let uri = prep.uri.clone();
    let cid_bytes = prep.cid_bytes.clone();
    let ct_val = prep.ct_val.clone();
    let chunks = prep.chunks.clone();
    let (broken, http10) = (prep.broken, prep.http10);
    let extra = prep.extra.clone();
    let pause_ms = prep.pause_ms;
    std::panic::catch_unwind(std::panic::AssertUnwindSafe(|| {
        actix_rt::System::new().block_on(async move {
            let app = test::init_service(App::new().configure(|c| web.config(c))).await;
            let mut rq = test::TestRequest::default().method(method).uri(&uri);
            if http10 {
                rq = rq.version(actix_web::http::Version::HTTP_10);
            }
            if let Some(b) = cid_bytes {
                rq = rq.insert_header((
                    actix_web::http::header::HeaderName::from_static("x-client-id"),
                    actix_web::http::header::HeaderValue::from_bytes(&b).unwrap_or(actix_web::http::header::HeaderValue::from_static("")),
                ));
            }
            if let Some(ct) = ct_val {
                rq = rq.insert_header(("Content-Type", ct));
            }
            for (n, v) in &extra {
                // (a further header line: it does not replace one of the same name)
                rq = rq.append_header((n.as_str(), v.as_str()));
            }
            let req = if chunks.len() <= 1 && !broken {
                // what a real client sends with a body of known length
                let total: usize = chunks.iter().map(|c| c.len()).sum();
                if total > 0 {
                    rq = rq.insert_header(("Content-Length", total.to_string()));
                }
                rq.set_payload(chunks.concat()).to_request()
            } else {
                let (mut sender, pl) = actix_http::h1::Payload::create(pause_ms == 0);
                if pause_ms > 0 && chunks.len() >= 2 {
                    // a slow client: everything but the last chunk now, the rest after a pause
                    for c in &chunks[..chunks.len() - 1] {
                        sender.feed_data(actix_web::web::Bytes::copy_from_slice(c));
                    }
                    let last = chunks[chunks.len() - 1].clone();
                    actix_rt::spawn(async move {
                        actix_rt::time::sleep(std::time::Duration::from_millis(pause_ms)).await;
                        sender.feed_data(actix_web::web::Bytes::copy_from_slice(&last));
                        sender.feed_eof();
                    });
                } else {
                    for c in &chunks {
                        sender.feed_data(actix_web::web::Bytes::copy_from_slice(c));
                    }
                    if broken {
                        sender.set_error(actix_web::error::PayloadError::Incomplete(None));
                    } else {
                        sender.feed_eof();
                    }
                }
                let req = rq.to_request();
                let (req, _) = req.replace_payload(actix_http::Payload::from(pl));
                req
            };
            let resp = test::try_call_service(&app, req).await;
            match resp {
                Ok(resp) => {
                    let status = resp.status().as_u16();
                    let hdr = |n: &str| resp.headers().get(n).map(|v| v.as_bytes().to_vec());
                    let (xv, xp, xs, ct, cc) = (hdr("X-Version-Id"), hdr("X-Parent-Version-Id"), hdr("X-Snapshot-Request"), hdr("Content-Type"), hdr("Cache-Control"));
                    let body = test::read_body(resp).await.to_vec();
                    Ok((status, xv, xp, xs, ct, cc, body))
                }
                Err(e) => {
                    // an Err escaping the service: what the HTTP dispatcher would send
                    let r = e.error_response();
                    let hdr = |n: &str| r.headers().get(n).map(|v| v.as_bytes().to_vec());
                    Err((r.status().as_u16(), hdr("Cache-Control")))
                }
            }
        })
    }))
}

/// two uploads served by ONE worker (one thread, one actix System, one App instance), their body
/// chunks arriving alternately: A1, B1, A2, B2, ... — the way one HttpServer worker interleaves the
/// requests of several connections at every `.await`
pub fn run_interleaved(web: WebServer, preps: &[Prepared]) -> std::thread::Result<Vec<RawResult>> {
    let specs: Vec<(Method, String, Option<Vec<u8>>, Option<String>, Vec<Vec<u8>>)> = preps
        .iter()
        .map(|p| (Method::from_bytes(p.method.as_bytes()).unwrap(), p.uri.clone(), p.cid_bytes.clone(), p.ct_val.clone(), p.chunks.clone()))
        .collect();
    std::panic::catch_unwind(std::panic::AssertUnwindSafe(|| {
        actix_rt::System::new().block_on(async move {
            let app = test::init_service(App::new().configure(|c| web.config(c))).await;
            let mut senders = vec![];
            let mut reqs = vec![];
            for (method, uri, cid, ct, _) in &specs {
                let mut rq = test::TestRequest::default().method(method.clone()).uri(uri);
                if let Some(b) = cid {
                    rq = rq.insert_header((
                        actix_web::http::header::HeaderName::from_static("x-client-id"),
                        actix_web::http::header::HeaderValue::from_bytes(b).unwrap(),
                    ));
                }
                if let Some(ct) = ct {
                    rq = rq.insert_header(("Content-Type", ct.clone()));
                }
                let (sender, pl) = actix_http::h1::Payload::create(false);
                let req = rq.to_request();
                let (req, _) = req.replace_payload(actix_http::Payload::from(pl));
                senders.push(sender);
                reqs.push(req);
            }
            let chunks: Vec<Vec<Vec<u8>>> = specs.iter().map(|s| s.4.clone()).collect();
            let feeder = async move {
                let rounds = chunks.iter().map(|c| c.len()).max().unwrap_or(0);
                for r in 0..=rounds {
                    for (k, s) in senders.iter_mut().enumerate() {
                        if r < chunks[k].len() {
                            s.feed_data(actix_web::web::Bytes::copy_from_slice(&chunks[k][r]));
                        } else if r == chunks[k].len() {
                            s.feed_eof();
                        }
                        // let the handlers run on what has arrived so far
                        for _ in 0..4 {
                            actix_rt::task::yield_now().await;
                        }
                    }
                }
            };
            let calls = futures::future::join_all(reqs.into_iter().map(|r| test::try_call_service(&app, r)));
            let (resps, _) = futures::future::join(calls, feeder).await;
            let mut out = vec![];
            for resp in resps {
                out.push(match resp {
                    Ok(resp) => {
                        let status = resp.status().as_u16();
                        let hdr = |n: &str| resp.headers().get(n).map(|v| v.as_bytes().to_vec());
                        let (xv, xp, xs, ct, cc) = (hdr("X-Version-Id"), hdr("X-Parent-Version-Id"), hdr("X-Snapshot-Request"), hdr("Content-Type"), hdr("Cache-Control"));
                        let body = test::read_body(resp).await.to_vec();
                        Ok((status, xv, xp, xs, ct, cc, body))
                    }
                    Err(e) => {
                        let r = e.error_response();
                        let hdr = |n: &str| r.headers().get(n).map(|v| v.as_bytes().to_vec());
                        Err((r.status().as_u16(), hdr("Cache-Control")))
                    }
                });
            }
            out
        })
    }))
}

pub struct HCtx {
    pub l1: Ctx,
    pub allow: Option<Vec<u32>>, // symbolic client numbers
    pub web: Option<WebServer>,
    /// WebServer objects of the other server instances (see Ctx::switch_inst)
    pub webs: std::collections::HashMap<u32, WebServer>,
    /// an armed intrusion (see store::Intrude): symbolic client, its payload
    pub intr: Option<(u32, Vec<u8>)>,
}

fn id_form(u: Uuid, form: &str) -> Vec<u8> {
    match form {
        "hyph" => u.hyphenated().to_string().into_bytes(),
        "upper" => u.hyphenated().to_string().to_uppercase().into_bytes(),
        "simple" => u.simple().to_string().into_bytes(),
        "braced" => u.braced().to_string().into_bytes(),
        "urn" => u.urn().to_string().into_bytes(),
        "short" => u.hyphenated().to_string()[..35].to_string().into_bytes(),
        "long" => format!("{}0", u.hyphenated()).into_bytes(),
        "nonhex" => {
            let mut s = u.hyphenated().to_string().into_bytes();
            s[3] = b'g';
            s
        }
        "empty" => vec![],
        "nontext" => vec![0xff, 0xfe, 0x80, 0x81],
        "space" => format!(" {}", u.hyphenated()).into_bytes(),
        other => panic!("bad id form {other}"),
    }
}

pub fn id_form_ok(form: &str) -> bool {
    matches!(form, "hyph" | "upper" | "simple" | "braced" | "urn")
}

impl HCtx {
    pub fn new(backend: Backend, seed: u64) -> Self {
        let l1 = Ctx::new(backend, seed);
        let mut h = HCtx { l1, allow: None, web: None, webs: std::collections::HashMap::new(), intr: None };
        h.rebuild();
        h
    }

    pub fn rebuild(&mut self) {
        let allow: Option<HashSet<Uuid>> = self.allow.clone().map(|v| v.into_iter().map(|c| self.l1.client(c)).collect());
        let cfg = ServerConfig { snapshot_days: self.l1.days, snapshot_versions: self.l1.versions, ..Default::default() };
        self.web = Some(WebServer::new(cfg, allow, self.l1.shared()));
    }

    fn allow_line(&mut self) -> String {
        match self.allow.clone() {
            None => "allow none".to_string(),
            Some(v) if v.is_empty() => "allow -".to_string(),
            Some(v) => {
                let ids: Vec<String> = v.iter().map(|c| { let u = self.l1.client(*c); self.l1.canon.id(u).to_string() }).collect();
                format!("allow {}", ids.join(","))
            }
        }
    }

    /// http METHOD ROUTE SEGFORM=SEGSPEC CIDFORM=CLIENT CTYPE BODY
    pub fn http(&mut self, toks: &[&str]) {
        let prep = self.build(toks);
        let web = self.web.as_ref().unwrap().clone();
        let store = self.l1.store.as_ref().unwrap().clone();
        store.take_log();
        let now = chrono::Utc::now().timestamp();
        let raw = run_request(web, &prep);
        let calls = store.take_log().join(",");
        let after = self.l1.store.as_ref().map(|st| st.intrude.lock().unwrap().as_ref().map(|i| i.after_commit).unwrap_or(false)).unwrap_or(false);
        if after {
            // what the other instance did came after the request's own (committed) effect
            self.finish(prep, raw, now, Some(calls));
            let post = self.intrusion_lines(now);
            self.l1.out.extend(post);
        } else {
            let pre = self.intrusion_lines(now);
            self.l1.out.extend(pre);
            self.finish(prep, raw, now, Some(calls));
        }
    }

    /// if the armed intrusion fired during the request(s) just run: the lines of what the other instance did
    /// (ensure + one accepted version on the nil parent), to be placed BEFORE the lines of those requests —
    /// the request's first, failed transaction had no effect, so "the other instance first" is the
    /// one-at-a-time order
    fn intrusion_lines(&mut self, now: i64) -> Vec<String> {
        let Some((c, data)) = self.intr.take() else { return vec![] };
        let st = self.l1.store.as_ref().unwrap().clone();
        let taken = st.intrude.lock().unwrap().take();
        let Some(i) = taken else { return vec![] };
        if !i.fired {
            return vec!["OP mark intrusion-not-reached".into(), "R mark".into()];
        }
        let cu = self.l1.client(c);
        let cc = self.l1.canon.id(cu);
        let vn = self.l1.canon.id(i.version);
        let cd = self.l1.canon.payload(&data);
        if i.snap.is_some() {
            return vec![format!("OP as {cc} {vn} {now} {cd}"), format!("R {}", if i.failed { "error" } else { "snapack" })];
        }
        self.l1.accepted.entry(c).or_default().push((i.version, Uuid::nil()));
        vec![format!("OP ensure {cc}"), "R unit".into(), format!("OP av {cc} 0 {vn} {now} {cd}"),
             format!("R {}", if i.failed { "error".to_string() } else { format!("added {vn} high") })]
    }

    /// resolve symbolic parts against the current state and build the raw request bytes
    pub fn build(&mut self, toks: &[&str]) -> Prepared {
        let (method_s, route, seg, cid, ctype, body) = (toks[0], toks[1], toks[2], toks[3], toks[4], toks[5]);
        let (method_s, http10) = match method_s.strip_suffix("/1.0") { Some(m) => (m, true), None => (method_s, false) };
        let (body, broken) = match body.strip_prefix("brk:") { Some(rest) => (format!("chunks:{rest}"), true), None => (body.to_string(), false) };
        // slow:MS:a,b,...  the chunks of `chunks:a,b,...` with a pause of MS milliseconds before the last one
        let (body, pause_ms) = match body.strip_prefix("slow:") {
            Some(rest) => { let (ms, cs) = rest.split_once(':').unwrap(); (format!("chunks:{cs}"), ms.parse::<u64>().unwrap()) }
            None => (body, 0),
        };
        let body = body.as_str();
        // ---- path
        let (seg_class, seg_bytes): (String, Vec<u8>) = if seg == "-" {
            ("-".into(), vec![])
        } else {
            let (form, spec) = seg.split_once('=').unwrap();
            let u = self.l1.resolve(spec);
            let class = if id_form_ok(form) { self.l1.canon.id(u).to_string() } else { "bad".to_string() };
            (class, id_form(u, form))
        };
        let segs = String::from_utf8_lossy(&seg_bytes).to_string();
        let (route_class, uri) = match route {
            "index" => ("index", "/".to_string()),
            "av" => ("av", format!("/v1/client/add-version/{segs}")),
            "gcv" => ("gcv", format!("/v1/client/get-child-version/{segs}")),
            "as" => ("as", format!("/v1/client/add-snapshot/{segs}")),
            "snap" => ("snap", "/v1/client/snapshot".to_string()),
            // the same routes with a query string (not part of the route)
            "avq" => ("av", format!("/v1/client/add-version/{segs}?retry=1")),
            "gcvq" => ("gcv", format!("/v1/client/get-child-version/{segs}?x=%2F&y")),
            "asq" => ("as", format!("/v1/client/add-snapshot/{segs}?")),
            "snapq" => ("snap", "/v1/client/snapshot?client=other".to_string()),
            // the same routes with an unreserved character of the fixed part percent-encoded (routing
            // works on the decoded path)
            "avp" => ("av", format!("/v1/clien%74/add-version/{segs}")),
            "gcvp" => ("gcv", format!("/v%31/client/get-child-version/{segs}")),
            "asp" => ("as", format!("/v1/%63lient/add-snapshot/{segs}")),
            "snapp" => ("snap", "/%761/client/snapshot".to_string()),
            "unknown1" => ("unknown", "/v1/client/nope".to_string()),
            "unknown2" => ("unknown", format!("/v1/client/add-version/{segs}/extra")),
            "unknown3" => ("unknown", "/v2/client/snapshot".to_string()),
            "unknown4" => ("unknown", "/v1/client/snapshot/".to_string()),
            // request targets that are not a path at all: the asterisk form (`OPTIONS *`), a doubled leading slash
            "star" => ("unknown", "*".to_string()),
            "dslash" => ("unknown", "//v1/client/snapshot".to_string()),
            other => panic!("bad route {other}"),
        };
        // ---- client id header
        let (cid_class, cid_bytes): (String, Option<Vec<u8>>) = if cid == "absent" {
            ("absent".into(), None)
        } else {
            let (form, spec) = cid.split_once('=').unwrap();
            let u = if spec == "fresh" {
                // a client the server has never seen; registered so that later dumps cover it
                let k = 1000 + self.l1.clients.len() as u32;
                self.l1.client(k)
            } else {
                self.l1.client(spec.parse().unwrap())
            };
            let class = if id_form_ok(form) {
                self.l1.canon.id(u).to_string()
            } else if form == "nontext" {
                "nontext".to_string()
            } else {
                "unparse".to_string()
            };
            (class, Some(id_form(u, form)))
        };
        // ---- content type
        let (ct_class, ct_val): (&str, Option<&str>) = match ctype {
            "history" => ("history", Some("application/vnd.taskchampion.history-segment")),
            "history-param" => ("history", Some("application/vnd.taskchampion.history-segment; charset=utf-8")),
            "snapshot" => ("snapshot", Some("application/vnd.taskchampion.snapshot")),
            "snapshot-param" => ("snapshot", Some("application/vnd.taskchampion.snapshot;x=y")),
            "history-upper" => ("other", Some("Application/Vnd.Taskchampion.History-Segment")),
            "other" => ("other", Some("application/octet-stream")),
            "prefix" => ("other", Some("application/vnd.taskchampion.history-segment-x")),
            "snapshot-prefix" => ("other", Some("application/vnd.taskchampion.snapshot-x")),
            "snapshot-suffix" => ("other", Some("application/vnd.taskchampion.snapshots")),
            "snapshot-trunc" => ("other", Some("application/vnd.taskchampion.snapsho")),
            "history-trunc" => ("other", Some("application/vnd.taskchampion.history")),
            "snapshot-upper" => ("other", Some("application/vnd.taskchampion.SNAPSHOT")),
            "history-in-param" => ("other", Some("text/plain; application/vnd.taskchampion.history-segment")),
            "empty" => ("other", Some("")),
            "absent" => ("absent", None),
            other => panic!("bad ctype {other}"),
        };
        // ---- body: list of chunks
        let chunks: Vec<Vec<u8>> = if body == "e" {
            vec![]
        } else if body == "e1" {
            vec![vec![]] // one empty chunk
        } else if let Some(rest) = body.strip_prefix("chunks:") {
            rest.split(',').map(|s| { let n: usize = s.parse().unwrap(); self.l1.rng.bytes(n) }).collect()
        } else if body.starts_with("z:") {
            // z:LEN:K  one chunk of LEN position-dependent bytes (see l1::payload)
            vec![self.l1.payload(body)]
        } else if let Some(rest) = body.strip_prefix("big:") {
            // big:TOTAL:K  K chunks summing to TOTAL, cheap content
            let mut it = rest.split(':');
            let total: usize = it.next().unwrap().parse().unwrap();
            let k: usize = it.next().map(|s| s.parse().unwrap()).unwrap_or(1);
            let tag = (self.l1.rng.next() & 0xff) as u8;
            let mut out = vec![];
            let mut left = total;
            for i in 0..k {
                let n = if i + 1 == k { left } else { total / k };
                let mut v = vec![tag; n];
                if n > 0 { v[0] = i as u8; v[n - 1] = 0xA5; }
                out.push(v);
                left -= n;
            }
            out
        } else {
            vec![self.l1.payload(body)]
        };
        let whole: Vec<u8> = chunks.concat();
        // what the model is told: one token per chunk for big bodies, bytes otherwise
        let chunk_strs: Vec<String> = if whole.len() <= 64 {
            chunks.iter().map(|c| format!("{}:{}", c.len(), if c.is_empty() { "-".to_string() } else { c.iter().map(|b| b.to_string()).collect::<Vec<_>>().join(",") })).collect()
        } else {
            let toks: Vec<String> = chunks.iter().map(|c| self.l1.canon.chunk_token(c)).collect();
            self.l1.canon.register_chunked(&whole, &toks);
            chunks.iter().zip(toks.iter()).map(|(c, t)| format!("{}:{}", c.len(), t)).collect()
        };
        let mut chunk_strs = chunk_strs;
        if broken {
            // what the model is told about a body that breaks off: a further chunk that can never be
            // accepted (longer than the limit) — the request is refused with 400 before any storage
            // call either way, which is all the model says about it
            chunk_strs.push("104857601:-".to_string());
        }
        let chunks_class = if chunk_strs.is_empty() { "-".to_string() } else { chunk_strs.join(";") };
        let mclass = match method_s { "GET" => "get", "POST" => "post", _ => "other" };
        Prepared {
            method: method_s.to_string(),
            uri,
            cid_bytes,
            ct_val: ct_val.map(|s| s.to_string()),
            chunks,
            broken,
            http10,
            op_prefix: format!("http {mclass} {route_class} {seg_class} {cid_class} {ct_class} {chunks_class}"),
            route_class: route_class.to_string(),
            seg_class,
            cid_class,
            extra: match toks.get(6).and_then(|t| t.strip_prefix("xh=")) {
                // dupcid:K — a SECOND X-Client-Id line, naming client K (a proxy that adds its own, a client that
                // sends two): the request is the first line's
                // bearer:K — client K's id offered as `Authorization: Bearer <id>` (by itself no part of the protocol)
                Some(k) if k.starts_with("bearer:") => {
                    let c: u32 = k[7..].parse().unwrap();
                    vec![("Authorization".to_string(), format!("Bearer {}", self.l1.client(c).hyphenated()))]
                }
                Some(k) if k.starts_with("dupcid:") => {
                    let c: u32 = k[7..].parse().unwrap();
                    vec![("X-Client-Id".to_string(), self.l1.client(c).hyphenated().to_string())]
                }
                Some(k) => extra_headers(k),
                None => vec![],
            },
            pause_ms,
        }
    }

    /// canonicalise the raw result and emit the OP / R lines
    pub fn finish(&mut self, prep: Prepared, res: std::thread::Result<RawResult>, now: i64, calls: Option<String>) {
        let idh = |canon: &mut crate::canon::Canon, v: Option<Vec<u8>>| -> String {
            match v {
                None => "-".to_string(),
                Some(b) => match std::str::from_utf8(&b).ok().and_then(|s| Uuid::parse_str(s).ok()) {
                    Some(u) => canon.id(u).to_string(),
                    None => format!("BAD({})", String::from_utf8_lossy(&b)),
                },
            }
        };
        let mut fresh_id: Option<u64> = None;
        let line = match res {
            Err(_) => "http panic".to_string(),
            Ok(Err((status, cc))) => {
                let ccs = match cc { Some(v) if String::from_utf8_lossy(&v).contains("no-store") => "1", _ => "0" };
                format!("http {status} xv=- xp=- xs=- ct=- cc={ccs} body=- ESCAPED")
            }
            Ok(Ok((status, xv, xp, xs, ct, cc, body))) => {
                // an accepted add-version: remember it for symbolic resolution
                if prep.route_class == "av" && status == 200 {
                    if let (Some(b), Ok(c)) = (xv.as_ref(), prep.cid_class.parse::<u64>()) {
                        if let Some(u) = std::str::from_utf8(b).ok().and_then(|s| Uuid::parse_str(s).ok()) {
                            let sym = self.l1.clients.iter().find(|(_, v)| self.l1.canon_peek(**v) == Some(c)).map(|(k, _)| *k);
                            if let (Some(sym), Ok(p)) = (sym, prep.seg_class.parse::<u64>()) {
                                let pu = if p == 0 { Uuid::nil() } else { self.l1.canon.known[(p - 1) as usize] };
                                self.l1.accepted.entry(sym).or_default().push((u, pu));
                            }
                            fresh_id = Some(self.l1.canon.id(u));
                        }
                    }
                }
                let xvs = idh(&mut self.l1.canon, xv);
                let xps = idh(&mut self.l1.canon, xp);
                let xss = match xs {
                    None => "-".to_string(),
                    Some(b) => match b.as_slice() { b"urgency=low" => "low".into(), b"urgency=high" => "high".into(), o => format!("BAD({})", String::from_utf8_lossy(o)) },
                };
                let cts = match ct {
                    None => "-".to_string(),
                    Some(b) => match b.as_slice() {
                        b"application/vnd.taskchampion.history-segment" => "history".into(),
                        b"application/vnd.taskchampion.snapshot" => "snapshot".into(),
                        o if o.starts_with(b"text/plain") => "text".into(),
                        o => format!("OTHER({})", String::from_utf8_lossy(o)),
                    },
                };
                let ccs = match cc { Some(v) if String::from_utf8_lossy(&v).contains("no-store") => "1", _ => "0" };
                let bodys = if status == 200 && (cts == "history" || cts == "snapshot") { self.l1.canon.payload(&body) } else { "-".to_string() };
                let cts = if status == 200 { cts } else { "-".to_string() };
                format!("http {status} xv={xvs} xp={xps} xs={xss} ct={cts} cc={ccs} body={bodys}")
            }
        };
        let fresh = fresh_id.unwrap_or_else(|| self.l1.canon.unused());
        self.l1.out.push(format!("OP {} {fresh} {now}", prep.op_prefix));
        match calls {
            Some(c) => self.l1.out.push(format!("R {line} | {c}")),
            None => self.l1.out.push(format!("R {line} | ")),
        }
    }

    pub fn exec(&mut self, toks: &[&str]) {
        match toks {
            ["http", rest @ ..] => {
                self.http(rest);
                self.l1.after_op();
            }
            ["ileave", rest @ ..] => {
                // ileave http ... || http ...   (bodies must be multi-chunk; different clients)
                let joined = rest.join(" ");
                let reqs: Vec<Vec<String>> = joined.split("||").map(|r| r.split_whitespace().map(|x| x.to_string()).collect()).collect();
                let preps: Vec<Prepared> = reqs.iter().map(|r| { let t: Vec<&str> = r.iter().map(|s| s.as_str()).collect(); self.build(&t[1..]) }).collect();
                let web = self.web.as_ref().unwrap().clone();
                let now = chrono::Utc::now().timestamp();
                let at = self.l1.out.len();
                // (with an intrusion armed the outcome is determined: the requests are compared with the model one by one)
                self.l1.out.push(format!("OP mark {} {}", if self.intr.is_some() { "oneworker" } else { "ileave" }, preps.len()));
                self.l1.out.push("R mark".into());
                let res = run_interleaved(web, &preps);
                let pre = self.intrusion_lines(now);
                self.l1.out.splice(at..at, pre);
                match res {
                    Ok(v) => {
                        for (p, r) in preps.into_iter().zip(v.into_iter()) {
                            self.finish(p, Ok(r), now, None);
                        }
                    }
                    Err(_) => {
                        for p in preps {
                            self.finish(p, Err(Box::new("panic")), now, None);
                        }
                    }
                }
            }
            ["conc", mode, rest @ ..] => {
                // conc MODE http ... || http ... ## sched tokens
                let joined = rest.join(" ");
                let (reqs_s, sched_s) = joined.split_once("##").unwrap_or((&joined, ""));
                let reqs: Vec<Vec<String>> = reqs_s.split("||").map(|r| r.split_whitespace().map(|x| x.to_string()).collect()).collect();
                let sched: Vec<String> = sched_s.split_whitespace().map(|x| x.to_string()).collect();
                self.conc(mode, reqs, sched);
            }
            ["slowcall", k, ms] => {
                // a slow disk: storage call number K of the next request takes MS milliseconds longer, then succeeds
                let st = self.l1.store.as_ref().expect("slowcall needs the wrapper").clone();
                st.set_delay(k.parse().unwrap(), ms.parse().unwrap());
            }
            ["intrudeafter", n, c, "snap", "stored", pl] => {
                // right AFTER the N-th transaction from now has committed (and before the request that made it has
                // finished), another instance stores a snapshot for the version that is then the client's latest
                let c: u32 = c.parse().unwrap();
                let cu = self.l1.client(c);
                let data = self.l1.payload(pl);
                let st = self.l1.store.as_ref().expect("intrude needs the wrapper").clone();
                *st.intrude.lock().unwrap() = Some(crate::store::Intrude { at_begin: n.parse().unwrap(), client: cu, version: Uuid::nil(), data: data.clone(), snap: Some(Uuid::nil()), after_commit: true, seen: 0, fired: false, failed: false });
                self.intr = Some((c, data));
            }
            ["intrude", n, c, "snap", vspec, pl] => {
                // ... or (snap SPEC): the other instance stores a snapshot for version SPEC of client C — a version the
                // acceptance rule admits (the case sees to that), stamped with the current time
                let c: u32 = c.parse().unwrap();
                let cu = self.l1.client(c);
                let sv = self.l1.resolve(vspec);
                let data = self.l1.payload(pl);
                let st = self.l1.store.as_ref().expect("intrude needs the wrapper").clone();
                *st.intrude.lock().unwrap() = Some(crate::store::Intrude { at_begin: n.parse().unwrap(), client: cu, version: sv, data: data.clone(), snap: Some(sv), after_commit: false, seen: 0, fired: false, failed: false });
                self.intr = Some((c, data));
            }
            ["intrude", n, c, pl] => {
                // intrude N C PAYLOAD: before the N-th transaction begin from now (0 = the next one), another instance
                // uploads client C's first version (parent nil, PAYLOAD), creating the client if need be
                let c: u32 = c.parse().unwrap();
                let cu = self.l1.client(c);
                let data = self.l1.payload(pl);
                let st = self.l1.store.as_ref().expect("intrude needs the wrapper").clone();
                *st.intrude.lock().unwrap() = Some(crate::store::Intrude { at_begin: n.parse().unwrap(), client: cu, version: Uuid::new_v4(), data: data.clone(), snap: None, after_commit: false, seen: 0, fired: false, failed: false });
                self.intr = Some((c, data));
            }
            ["fixture", _name] | ["deadstart", _name] => {
                self.l1.exec(toks);
                self.rebuild();
            }
            ["allow", spec] => {
                self.allow = match *spec {
                    "none" => None,
                    "-" => Some(vec![]),
                    s => Some(s.split(',').map(|x| x.parse().unwrap()).collect()),
                };
                self.rebuild();
                let l = self.allow_line();
                self.l1.out.push(format!("OP {l}"));
                self.l1.out.push("R allowed".to_string());
            }
            ["cfg", d, v] => {
                self.l1.set_cfg(d.parse().unwrap(), v.parse().unwrap());
                self.rebuild();
            }
            ["inst", k] => {
                let k: u32 = k.parse().unwrap();
                if self.l1.backend == Backend::Sqlite && k != self.l1.cur_inst {
                    let old = self.l1.cur_inst;
                    if let Some(w) = self.web.take() {
                        self.webs.insert(old, w);
                    }
                    self.l1.switch_inst(k);
                    match self.webs.remove(&k) {
                        Some(w) => self.web = Some(w),
                        None => self.rebuild(),
                    }
                }
                self.l1.out.push("OP reopen".to_string());
                self.l1.out.push("R unit".to_string());
            }
            ["reopen"] => {
                self.web = None;
                self.l1.reopen();
                self.rebuild();
            }
            other => self.l1.exec(other),
        }
    }
}

/// `harness http <inmem|sqlite>`: symbolic cases on stdin, OP/R lines on stdout
pub fn main_http(backend: Backend, seed: u64) {
    crate::store::install_panic_recorder();
    let stdin = std::io::stdin();
    let stdout = std::io::stdout();
    let mut w = std::io::BufWriter::new(stdout.lock());
    let mut ctx: Option<HCtx> = None;
    let mut k = 0u64;
    for line in stdin.lock().lines() {
        let line = line.unwrap();
        let toks: Vec<&str> = line.split_whitespace().collect();
        match toks.as_slice() {
            [] => {}
            ["case", name] => {
                k += 1;
                ctx = Some(HCtx::new(backend, seed.wrapping_add(k.wrapping_mul(0x9E37))));
                writeln!(w, "# case {name}").unwrap();
                writeln!(w, "OP reset {}", if backend == Backend::Sqlite { "sqlite" } else { "inmem" }).unwrap();
                writeln!(w, "OP trace on").unwrap();
            }
            ["end"] => {
                ctx = None;
            }
            other => {
                let c = ctx.as_mut().expect("op outside case");
                let what = other.join(" ");
                let mut extra: Vec<String> = vec![];
                crate::store::guarded(&mut extra, &what, || c.exec(other));
                c.l1.out.append(&mut extra);
                for l in c.l1.out.drain(..) {
                    writeln!(w, "{l}").unwrap();
                }
                w.flush().unwrap();
            }
        }
    }
    w.flush().unwrap();
}
