//! L1: library-level histories on the real `Server` over the real backends.
//! Reads symbolic cases, resolves symbolic ids against what the implementation returned,
//! prints for every operation the concrete operation line (`OP …`, input of the model
//! runner) and the canonicalised response line (`R …`).
use crate::canon::{Canon, Rng};
use crate::store::{LogStore, Shared};
use std::sync::Arc;
use chrono::{Duration, Utc};
use std::collections::HashMap;
use std::io::{BufRead, Write};
use std::panic::{catch_unwind, AssertUnwindSafe};
use taskchampion_sync_server_core::{
    AddVersionResult, GetVersionResult, InMemoryStorage, Server, ServerConfig, ServerError,
    Snapshot, SnapshotUrgency, StorageTxn, Version,
};
use taskchampion_sync_server_storage_sqlite::SqliteStorage;
use uuid::Uuid;

#[derive(Clone, Copy, PartialEq, Eq, Debug)]
pub enum Backend {
    InMem,
    Sqlite,
}

pub struct Ctx {
    pub backend: Backend,
    pub dir: Option<tempfile::TempDir>,
    pub server: Option<Server>,
    pub store: Option<Arc<LogStore>>,
    pub days: i64,
    pub versions: u32,
    pub clients: HashMap<u32, Uuid>,
    pub accepted: HashMap<u32, Vec<(Uuid, Uuid)>>,
    pub canon: Canon,
    pub vars: HashMap<String, Uuid>,
    pub rng: Rng,
    pub out: Vec<String>,
    pub keep_dir: Option<std::path::PathBuf>,
    pub held: Option<rusqlite::Connection>,
    /// a versions row whose payload column was set to NULL for the next operation (id text, old blob)
    pub rowfault: Option<(String, Vec<u8>)>,
    /// a trigger that makes one kind of statement fail, armed for the next operation only
    pub sqlfault: bool,
    /// the file-size limit is lowered for the next operation only
    pub fsize: bool,
    /// further server instances on the same data directory (SQLite): number -> (server, store)
    pub insts: HashMap<u32, (Server, Arc<LogStore>)>,
    pub cur_inst: u32,
    /// the Server sits directly on the backend's storage object, with no harness wrapper in between
    pub raw: bool,
}

pub fn odd_uuid(kind: usize) -> Uuid {
    let mut b = *Uuid::new_v4().as_bytes();
    match kind % 5 {
        0 => { b[6] = (b[6] & 0x0f) | 0x70; }
        1 => { b[6] = (b[6] & 0x0f) | 0x10; }
        2 => { b = [0xff; 16]; }
        3 => { b[6] = (b[6] & 0x0f) | 0xe0; b[8] |= 0xc0; }
        _ => { b[6] &= 0x0f; b[8] &= 0x3f; }
    }
    Uuid::from_bytes(b)
}

pub fn urg(u: SnapshotUrgency) -> &'static str {
    match u {
        SnapshotUrgency::None => "none",
        SnapshotUrgency::Low => "low",
        SnapshotUrgency::High => "high",
    }
}

impl Ctx {
    pub fn new(backend: Backend, seed: u64) -> Self {
        let mut c = Ctx {
            backend,
            dir: None,
            server: None,
            store: None,
            days: 14,
            versions: 100,
            clients: HashMap::new(),
            accepted: HashMap::new(),
            canon: Canon::new(),
            vars: HashMap::new(),
            rng: Rng(seed),
            out: Vec::new(),
            keep_dir: std::env::var("TSS_KEEP_DIR").ok().map(std::path::PathBuf::from),
            held: None,
            rowfault: None,
            sqlfault: false,
            fsize: false,
            insts: HashMap::new(),
            cur_inst: 0,
            raw: false,
        };
        c.open(true);
        c
    }

    fn cfg(&self) -> ServerConfig {
        ServerConfig {
            snapshot_days: self.days,
            snapshot_versions: self.versions,
            ..Default::default()
        }
    }

    /// (re)create the Server; for SQLite on the same directory
    pub fn open(&mut self, fresh: bool) {
        if self.raw {
            // no wrapper: whatever the backend's own StorageTxn implements (overridden trait methods
            // included) is what the Server calls
            match self.backend {
                Backend::InMem => {
                    if fresh || self.server.is_none() {
                        self.server = Some(Server::new(self.cfg(), InMemoryStorage::new()));
                    }
                }
                Backend::Sqlite => {
                    self.server = None;
                    if fresh && self.keep_dir.is_none() {
                        self.dir = Some(tempfile::TempDir::new().expect("tempdir"));
                    }
                    let st = SqliteStorage::new(self.data_dir()).expect("open sqlite");
                    self.server = Some(Server::new(self.cfg(), st));
                }
            }
            self.store = None;
            return;
        }
        self.server = None; // drop the old storage object first
        match self.backend {
            Backend::InMem => {
                if fresh || self.store.is_none() {
                    self.store = Some(Arc::new(LogStore::new(InMemoryStorage::new())));
                }
            }
            Backend::Sqlite => {
                self.store = None;
                if fresh && self.keep_dir.is_none() {
                    self.dir = Some(tempfile::TempDir::new().expect("tempdir"));
                }
                let st = SqliteStorage::new(self.data_dir()).expect("open sqlite");
                self.store = Some(Arc::new(LogStore::new(st)));
            }
        }
        let shared = Shared(self.store.as_ref().unwrap().clone());
        self.server = Some(Server::new(self.cfg(), shared));
    }

    /// `race C NW ROUNDS`: free-running overlap, with NO wrapper and no scheduler between the Server
    /// and the backend: NW writers (for SQLite each with its own Server on the directory) each send a
    /// stream of ROUNDS add_version requests for client C (parent = the latest version they know of),
    /// while one thread keeps sending add_snapshot for the most recently accepted version and one
    /// keeps reading.  Reports: requests answered with an error although they took less than the
    /// lock-wait budget, parents accepted twice, accepted versions that are not on the stored chain.
    pub fn race(&mut self, c: u32, nw: usize, rounds: usize) {
        self.race_mode(c, nw, rounds, false)
    }

    /// shared = true: all streams go through ONE server object (one storage instance shared by the worker threads of
    /// a process), instead of one instance per stream on one directory
    pub fn race_mode(&mut self, c: u32, nw: usize, rounds: usize, shared: bool) {
        use std::sync::atomic::{AtomicBool, AtomicUsize, Ordering};
        use std::sync::Mutex;
        use std::time::Instant;
        let cu = self.client(c);
        let mk = |me: &Ctx| -> Server {
            match me.backend {
                Backend::Sqlite => Server::new(me.cfg(), SqliteStorage::new(me.data_dir()).expect("open sqlite")),
                Backend::InMem => unreachable!(),
            }
        };
        // the starting point: the latest version as the store has it
        let start_latest = match self.accepted.get(&c).and_then(|v| v.last()) {
            // (from the bookkeeping when there is one: the store may be locked by another connection right now)
            Some(x) => x.0,
            None => {
                let server = self.server.as_ref().unwrap();
                let mut txn = server.txn(cu).expect("txn");
                let l = txn.get_client().expect("get_client").map(|c| c.latest_version_id).unwrap_or(Uuid::nil());
                drop(txn);
                l
            }
        };
        let extra: Vec<Server> = if self.backend == Backend::Sqlite && !shared { (0..nw + 2).map(|_| mk(self)).collect() } else { vec![] };
        let main = self.server.as_ref().unwrap();
        let pick = |i: usize| -> &Server { if extra.is_empty() { main } else { &extra[i] } };
        let published = Mutex::new(start_latest);
        let accepted: Mutex<Vec<(Uuid, Uuid)>> = Mutex::new(vec![]);
        let fast_errs: Mutex<Vec<String>> = Mutex::new(vec![]);
        let slow_errs = AtomicUsize::new(0);
        let snaps_ok = AtomicUsize::new(0);
        let reads_ok = AtomicUsize::new(0);
        let torn = AtomicUsize::new(0);
        let max_ok_ms = AtomicUsize::new(0);
        let done = AtomicBool::new(false);
        let budget_ms: u128 = 4000;
        let gate = std::sync::Barrier::new(nw + 2);
        let note = |what: &str, t0: Instant, e: String| {
            let ms = t0.elapsed().as_millis();
            if ms < budget_ms {
                let mut f = fast_errs.lock().unwrap();
                if f.len() < 3 { f.push(format!("{what}:{ms}ms:{}", e.replace(' ', "_").chars().take(80).collect::<String>())); } else { f.push(String::new()); }
            } else {
                slow_errs.fetch_add(1, Ordering::SeqCst);
            }
        };
        std::thread::scope(|sc| {
            let mut ws = vec![];
            for w in 0..nw {
                let (published, accepted, note, gate, max_ok_ms) = (&published, &accepted, &note, &gate, &max_ok_ms);
                let srv = pick(w);
                ws.push(sc.spawn(move || {
                    let mut parent = start_latest;
                    gate.wait();
                    for r in 0..rounds {
                        let t0 = Instant::now();
                        let res = catch_unwind(AssertUnwindSafe(|| srv.add_version(cu, parent, vec![w as u8, r as u8, 7])));
                        if matches!(res, Ok(Ok(_))) { max_ok_ms.fetch_max(t0.elapsed().as_millis() as usize, Ordering::SeqCst); }
                        match res {
                            Ok(Ok((AddVersionResult::Ok(v), _))) => {
                                accepted.lock().unwrap().push((v, parent));
                                *published.lock().unwrap() = v;
                                parent = v;
                            }
                            Ok(Ok((AddVersionResult::ExpectedParentVersion(l), _))) => parent = l,
                            Ok(Err(e)) => note("add_version", t0, format!("{e:?}")),
                            Err(_) => note("add_version", t0, "panic".into()),
                        }
                        // (a replica does something between two uploads; the snapshot and read streams get their turns)
                        if r % 2 == 1 { std::thread::sleep(std::time::Duration::from_millis(1)); }
                    }
                }));
            }
            let (published, note, done, snaps_ok, reads_ok, gate, torn) = (&published, &note, &done, &snaps_ok, &reads_ok, &gate, &torn);
            let ssrv = pick(nw);
            sc.spawn(move || {
                let mut k = 0u8;
                gate.wait();
                while !done.load(Ordering::SeqCst) {
                    let v = *published.lock().unwrap();
                    if v.is_nil() { std::thread::yield_now(); continue; }
                    let t0 = Instant::now();
                    k = k.wrapping_add(1);
                    // the uploaded bytes say which version they are for (the id, then a filler derived from it), in
                    // sizes from a few bytes to several megabytes: whoever reads a snapshot can tell whether id and
                    // bytes come from one upload
                    let size = [24usize, 1 << 20, 4 << 20, 300][k as usize % 4];
                    let mut blob = v.as_bytes().to_vec();
                    blob.resize(16 + size, v.as_bytes()[15]);
                    match catch_unwind(AssertUnwindSafe(|| ssrv.add_snapshot(cu, v, blob))) {
                        Ok(Ok(())) => { snaps_ok.fetch_add(1, Ordering::SeqCst); }
                        Ok(Err(e)) => note("add_snapshot", t0, format!("{e:?}")),
                        Err(_) => note("add_snapshot", t0, "panic".into()),
                    }
                }
            });
            let rsrv = pick(nw + 1);
            sc.spawn(move || {
                gate.wait();
                while !done.load(Ordering::SeqCst) {
                    let v = *published.lock().unwrap();
                    let t0 = Instant::now();
                    match catch_unwind(AssertUnwindSafe(|| rsrv.get_child_version(cu, v))) {
                        Ok(Ok(_)) => { reads_ok.fetch_add(1, Ordering::SeqCst); }
                        Ok(Err(e)) => note("get_child_version", t0, format!("{e:?}")),
                        Err(_) => note("get_child_version", t0, "panic".into()),
                    }
                    let t0 = Instant::now();
                    match catch_unwind(AssertUnwindSafe(|| rsrv.get_snapshot(cu))) {
                        Ok(Ok(got)) => {
                            reads_ok.fetch_add(1, Ordering::SeqCst);
                            if let Some((vid, data)) = got {
                                let whole = data.len() >= 16 && data[..16] == vid.as_bytes()[..] && data[16..].iter().all(|b| *b == vid.as_bytes()[15]);
                                if !whole { torn.fetch_add(1, Ordering::SeqCst); }
                            }
                        }
                        Ok(Err(e)) => note("get_snapshot", t0, format!("{e:?}")),
                        Err(_) => note("get_snapshot", t0, "panic".into()),
                    }
                }
            });
            for w in ws { let _ = w.join(); }
            done.store(true, Ordering::SeqCst);
        });
        // afterwards, one at a time: the chain from the starting point is exactly the accepted versions
        let acc = accepted.into_inner().unwrap();
        let mut chain: Vec<(Uuid, Uuid)> = vec![];
        let mut at = start_latest;
        let mut walk_err = false;
        loop {
            match main.get_child_version(cu, at) {
                Ok(GetVersionResult::Success { version_id, parent_version_id, .. }) => { chain.push((version_id, parent_version_id)); at = version_id; }
                Ok(_) => break,
                Err(_) => { walk_err = true; break; }
            }
            if chain.len() > acc.len() + 5 { break; }
        }
        let mut parents: Vec<Uuid> = acc.iter().map(|x| x.1).collect();
        parents.sort(); let np = parents.len(); parents.dedup();
        let twice = np - parents.len();
        let orphans = acc.iter().filter(|x| !chain.contains(x)).count();
        let extra_on_chain = chain.iter().filter(|x| !acc.contains(x)).count();
        let f = fast_errs.into_inner().unwrap();
        let first: Vec<String> = f.iter().filter(|x| !x.is_empty()).cloned().collect();
        let line = format!("race fast_errors={} slow_errors={} accepted={} parents_twice={} orphans={} unacknowledged_on_chain={} walk={} snaps={} reads={} torn_snapshots={} max_ok_ms={} first={}",
            f.len(), slow_errs.load(Ordering::SeqCst), acc.len(), twice, orphans, extra_on_chain, if walk_err { "error" } else { "ok" },
            if snaps_ok.load(Ordering::SeqCst) > 0 { "some" } else { "none" }, if reads_ok.load(Ordering::SeqCst) > 0 { "some" } else { "none" }, torn.load(Ordering::SeqCst), max_ok_ms.load(Ordering::SeqCst),
            if first.is_empty() { "-".to_string() } else { first.join(";") });
        // what was accepted is part of the client's history from here on
        let on_chain: Vec<(Uuid, Uuid)> = chain.iter().filter(|x| acc.contains(x)).cloned().collect();
        self.accepted.entry(c).or_default().extend(on_chain);
        self.emit(format!("race {c} {nw} {rounds}{}", if shared { " shared" } else { "" }), line);
    }

    /// `txn C call...`: calls are gc | nc=ID | ss=VER/SINCE/PAYLOAD | gsd=VER | gvp=PARENT | gv=VER |
    /// av=VER/PARENT/PAYLOAD | co  (ids are symbolic specs; the snapshot time is the current second)
    pub fn storage_txn(&mut self, c: u32, calls: &[&str]) {
        use chrono::TimeZone;
        let cu = self.client(c);
        let cc = self.canon.id(cu);
        // resolve everything first (resolution may itself read the store)
        enum K { Gc, Nc(Uuid), Ss(Uuid, i64, u32, Vec<u8>), Gsd(Uuid), Gvp(Uuid), Gv(Uuid), Av(Uuid, Uuid, Vec<u8>), Co }
        let now = chrono::Utc::now().timestamp();
        let mut ks: Vec<K> = vec![];
        let mut canon_calls: Vec<String> = vec![];
        for t in calls {
            let (name, arg) = t.split_once('=').unwrap_or((t, ""));
            let parts: Vec<&str> = arg.split('/').collect();
            match name {
                "gc" => { ks.push(K::Gc); canon_calls.push("gc".into()); }
                "nc" => { let l = self.resolve(parts[0]); canon_calls.push(format!("nc={}", self.canon.id(l))); ks.push(K::Nc(l)); }
                "ss" => {
                    let v = self.resolve(parts[0]);
                    let since: u32 = parts[1].parse().unwrap();
                    let d = self.payload(parts[2]);
                    canon_calls.push(format!("ss={}/{}/{}/{}", self.canon.id(v), now, since, self.canon.payload(&d)));
                    ks.push(K::Ss(v, now, since, d));
                }
                "gsd" => { let v = self.resolve(parts[0]); canon_calls.push(format!("gsd={}", self.canon.id(v))); ks.push(K::Gsd(v)); }
                "gvp" => { let v = self.resolve(parts[0]); canon_calls.push(format!("gvp={}", self.canon.id(v))); ks.push(K::Gvp(v)); }
                "gv" => { let v = self.resolve(parts[0]); canon_calls.push(format!("gv={}", self.canon.id(v))); ks.push(K::Gv(v)); }
                "av" => {
                    let v = self.resolve(parts[0]);
                    let p = self.resolve(parts[1]);
                    let d = self.payload(parts[2]);
                    canon_calls.push(format!("av={}/{}/{}", self.canon.id(v), self.canon.id(p), self.canon.payload(&d)));
                    ks.push(K::Av(v, p, d));
                }
                "co" => { ks.push(K::Co); canon_calls.push("co".into()); }
                other => panic!("bad storage call {other}"),
            }
        }
        let server = self.server.as_ref().unwrap();
        let mut res: Vec<String> = vec![];
        let mut found: Vec<Version> = vec![];
        let mut clients_seen: Vec<taskchampion_sync_server_core::Client> = vec![];
        let outcome = catch_unwind(AssertUnwindSafe(|| {
            let mut txn = server.txn(cu).expect("txn");
            for k in &ks {
                match k {
                    K::Gc => match txn.get_client() {
                        Ok(None) => res.push("c:none".into()),
                        Ok(Some(cl)) => { res.push(format!("c:#{}", clients_seen.len())); clients_seen.push(cl); }
                        Err(_) => res.push("err".into()),
                    },
                    K::Nc(l) => res.push(if txn.new_client(*l).is_ok() { "ok".into() } else { "err".into() }),
                    K::Ss(v, ts, since, d) => {
                        let snap = Snapshot { version_id: *v, timestamp: chrono::Utc.timestamp_opt(*ts, 0).unwrap(), versions_since: *since };
                        res.push(if txn.set_snapshot(snap, d.clone()).is_ok() { "ok".into() } else { "err".into() })
                    }
                    K::Gsd(v) => match txn.get_snapshot_data(*v) {
                        Ok(None) => res.push("d:none".into()),
                        Ok(Some(d)) => res.push(format!("d:%{}", { found.len(); let i = clients_seen.len(); let _ = i; d.iter().map(|b| b.to_string()).collect::<Vec<_>>().join(",") })),
                        Err(_) => res.push("err".into()),
                    },
                    K::Gvp(p) => match txn.get_version_by_parent(*p) {
                        Ok(None) => res.push("v:none".into()),
                        Ok(Some(v)) => { res.push(format!("v:#{}", found.len())); found.push(v); }
                        Err(_) => res.push("err".into()),
                    },
                    K::Gv(v) => match txn.get_version(*v) {
                        Ok(None) => res.push("v:none".into()),
                        Ok(Some(v)) => { res.push(format!("v:#{}", found.len())); found.push(v); }
                        Err(_) => res.push("err".into()),
                    },
                    K::Av(v, p, d) => res.push(if txn.add_version(*v, *p, d.clone()).is_ok() { "ok".into() } else { "err".into() }),
                    K::Co => res.push(if txn.commit().is_ok() { "ok".into() } else { "err".into() }),
                }
            }
        }));
        // canonical rendering of what was returned (ids numbered by first appearance)
        let mut vi = 0usize;
        let mut ci = 0usize;
        let mut shown: Vec<String> = vec![];
        for r in res {
            if r.starts_with("v:#") {
                let v = found[vi].clone();
                vi += 1;
                shown.push(format!("v:{}", self.version_str(&v)));
            } else if r.starts_with("c:#") {
                let cl = clients_seen[ci].clone();
                ci += 1;
                let snap = match &cl.snapshot {
                    None => "-".to_string(),
                    Some(sn) => format!("{}@{}+{}", self.canon.id(sn.version_id), sn.timestamp.timestamp(), sn.versions_since),
                };
                shown.push(format!("c:{}/{}", self.canon.id(cl.latest_version_id), snap));
            } else if let Some(d) = r.strip_prefix("d:%") {
                shown.push(format!("d:{}", if d.is_empty() { "-".to_string() } else { d.to_string() }));
            } else {
                shown.push(r);
            }
        }
        if outcome.is_err() {
            shown.push("PANIC".into());
        }
        self.emit(format!("txn {} {}", cc, canon_calls.join(" ")), shown.join(" "));
    }

    /// make server instance k the current one; instances are separate Server + storage objects on
    /// the same SQLite directory and keep whatever process-local state they have.  For the model
    /// (and for the in-memory backend, which has one process-wide store) this is a no-op.
    pub fn switch_inst(&mut self, k: u32) {
        if self.backend != Backend::Sqlite || k == self.cur_inst {
            return;
        }
        let cur = (self.server.take().unwrap(), self.store.take().unwrap());
        self.insts.insert(self.cur_inst, cur);
        match self.insts.remove(&k) {
            Some((sv, st)) => {
                self.server = Some(sv);
                self.store = Some(st);
            }
            None => {
                let st = SqliteStorage::new(self.data_dir()).expect("open sqlite (second instance)");
                self.store = Some(Arc::new(LogStore::new(st)));
                let shared = Shared(self.store.as_ref().unwrap().clone());
                self.server = Some(Server::new(self.cfg(), shared));
            }
        }
        self.cur_inst = k;
    }

    /// the SQLite data directory (a kept directory when TSS_KEEP_DIR is set, else a temp dir)
    pub fn data_dir(&self) -> std::path::PathBuf {
        match &self.keep_dir {
            Some(p) => p.clone(),
            None => self.dir.as_ref().unwrap().path().to_path_buf(),
        }
    }

    /// write / read the harness's bookkeeping (uuid numbering, clients, accepted versions), so
    /// that a later run on the same data directory uses the same canonical numbers
    pub fn save_state(&self, path: &str) {
        let mut s = String::new();
        for u in &self.canon.known {
            s.push_str(&format!("id {u}\n"));
        }
        let mut cs: Vec<_> = self.clients.iter().collect();
        cs.sort();
        for (k, u) in cs {
            s.push_str(&format!("client {k} {u}\n"));
        }
        let mut acc: Vec<_> = self.accepted.iter().collect();
        acc.sort_by_key(|x| *x.0);
        for (k, l) in acc {
            for (v, p) in l {
                s.push_str(&format!("accepted {k} {v} {p}\n"));
            }
        }
        std::fs::write(path, s).expect("save state");
    }
    pub fn load_state(&mut self, path: &str) {
        let txt = std::fs::read_to_string(path).expect("load state");
        for line in txt.lines() {
            let t: Vec<&str> = line.split_whitespace().collect();
            match t.as_slice() {
                ["id", u] => {
                    self.canon.id(Uuid::parse_str(u).unwrap());
                }
                ["client", k, u] => {
                    self.clients.insert(k.parse().unwrap(), Uuid::parse_str(u).unwrap());
                }
                ["accepted", k, v, p] => {
                    self.accepted.entry(k.parse().unwrap()).or_default().push((Uuid::parse_str(v).unwrap(), Uuid::parse_str(p).unwrap()));
                }
                _ => {}
            }
        }
    }

    /// the storage object behind the server, for other owners (WebServer)
    pub fn shared(&self) -> Shared {
        Shared(self.store.as_ref().unwrap().clone())
    }

    pub fn canon_peek(&self, u: Uuid) -> Option<u64> {
        self.canon.peek(&u)
    }

    pub fn client(&mut self, n: u32) -> Uuid {
        if let Some(u) = self.clients.get(&n) {
            return *u;
        }
        let u = if n >= 2000 {
            // a near miss of client (n - 2000) / 10: an id that shares most of its bits with that one
            let base = self.client((n - 2000) / 10);
            let mut b = *base.as_bytes();
            let r = *Uuid::new_v4().as_bytes();
            match n % 10 {
                0 => b[15] ^= 1,
                1 => b[0] ^= 0x80,
                2 => b[8..].copy_from_slice(&r[8..]),
                3 => b[..8].copy_from_slice(&r[..8]),
                4 => b.reverse(),
                _ => b[7] ^= 0x10,
            }
            Uuid::from_bytes(b)
        } else {
            Uuid::new_v4()
        };
        self.clients.insert(n, u);
        self.canon.id(u);
        u
    }

    fn snapshot_version(&mut self, c: u32) -> Uuid {
        let cu = self.client(c);
        let server = self.server.as_ref().unwrap();
        let r = catch_unwind(AssertUnwindSafe(|| -> Option<Uuid> {
            let mut txn = server.txn(cu).ok()?;
            let cl = txn.get_client().ok()??;
            cl.snapshot.map(|s| s.version_id)
        }));
        r.ok().flatten().unwrap_or(Uuid::nil())
    }

    /// resolve a symbolic id
    pub fn resolve(&mut self, spec: &str) -> Uuid {
        let parts: Vec<&str> = spec.split(':').collect();
        let num = |i: usize| -> usize { parts.get(i).and_then(|s| s.parse().ok()).unwrap_or(0) };
        match parts[0] {
            "nil" => Uuid::nil(),
            "fresh" => Uuid::new_v4(),
            "latest" => self
                .accepted
                .get(&(num(1) as u32))
                .and_then(|v| v.last())
                .map(|x| x.0)
                .unwrap_or(Uuid::nil()),
            "anc" => {
                let v = self.accepted.get(&(num(1) as u32)).cloned().unwrap_or_default();
                let k = num(2);
                if v.is_empty() {
                    Uuid::nil()
                } else if k < v.len() {
                    v[v.len() - 1 - k].0
                } else {
                    v[0].1
                }
            }
            "ver" => {
                let v = self.accepted.get(&(num(1) as u32)).cloned().unwrap_or_default();
                if v.is_empty() {
                    Uuid::nil()
                } else {
                    v[num(2) % v.len()].0
                }
            }
            "base" => self
                .accepted
                .get(&(num(1) as u32))
                .and_then(|v| v.first())
                .map(|x| x.1)
                .unwrap_or(Uuid::nil()),
            "snap" => self.snapshot_version(num(1) as u32),
            "stored" => {
                // the latest version id as the storage has it right now
                let cu = self.client(num(1) as u32);
                let server = self.server.as_ref().unwrap();
                let r = catch_unwind(AssertUnwindSafe(|| -> Option<Uuid> {
                    let mut txn = server.txn(cu).ok()?;
                    Some(txn.get_client().ok()??.latest_version_id)
                }));
                r.ok().flatten().unwrap_or(Uuid::nil())
            }
            "client" => self.client(num(1) as u32),
            // ids that stand in an arithmetic relation to other ids (a replica, a test tool or an attacker may
            // derive ids however it likes): xorc:A:B = client A's id XOR client B's id; xorl:A:B = client A's id
            // XOR client B's latest version id; sumc:A:B = the two client ids added (wrapping)
            "xorc" => Uuid::from_u128(self.client(num(1) as u32).as_u128() ^ self.client(num(2) as u32).as_u128()),
            "xorl" => {
                let l = self.accepted.get(&(num(2) as u32)).and_then(|v| v.last()).map(|x| x.0).unwrap_or(Uuid::nil());
                Uuid::from_u128(self.client(num(1) as u32).as_u128() ^ l.as_u128())
            }
            "sumc" => Uuid::from_u128(self.client(num(1) as u32).as_u128().wrapping_add(self.client(num(2) as u32).as_u128())),
            // an id that is a well-formed UUID but was not minted by `Uuid::new_v4` (replicas and other
            // server implementations choose their ids as they like): version 7, version 1, all ones,
            // arbitrary bits
            "odd" => odd_uuid(num(1)),
            v if v.starts_with("$odd") => {
                let key = v.to_string();
                let kind = v[4..].chars().next().and_then(|c| c.to_digit(10)).unwrap_or(0) as usize;
                *self.vars.entry(key).or_insert_with(|| odd_uuid(kind))
            }
            v if v.starts_with('$') => {
                // a named arbitrary id: the same uuid every time the name is used in this case
                let key = v.to_string();
                *self.vars.entry(key).or_insert_with(Uuid::new_v4)
            }
            other => panic!("bad id spec {other}"),
        }
    }

    pub fn payload(&mut self, spec: &str) -> Vec<u8> {
        if spec == "e" {
            return vec![];
        }
        if let Some(rest) = spec.strip_prefix("b:") {
            return rest.split(',').filter(|s| !s.is_empty()).map(|s| s.parse::<u8>().unwrap()).collect();
        }
        if let Some(rest) = spec.strip_prefix("r:") {
            let len: usize = rest.parse().unwrap();
            return self.rng.bytes(len);
        }
        if let Some(rest) = spec.strip_prefix("z:") {
            // z:LEN:K  LEN bytes of cheap, compressible content distinguished by K
            let (len, k) = rest.split_once(':').unwrap();
            let (len, k): (usize, usize) = (len.parse().unwrap(), k.parse().unwrap());
            return (0..len).map(|i| if i % 4096 == 0 { (i / 4096 % 251) as u8 } else { k as u8 }).collect();
        }
        panic!("bad payload spec {spec}")
    }

    fn emit(&mut self, op: String, r: String) {
        self.out.push(format!("OP {op}"));
        self.out.push(format!("R {r}"));
    }

    fn version_str(&mut self, v: &Version) -> String {
        format!(
            "{}:{}:{}",
            self.canon.id(v.version_id),
            self.canon.id(v.parent_version_id),
            self.canon.payload(&v.history_segment)
        )
    }

    pub fn add_version(&mut self, c: u32, pspec: &str, dspec: &str) {
        let cu = self.client(c);
        let p = self.resolve(pspec);
        let d = self.payload(dspec);
        let now = Utc::now().timestamp();
        let server = self.server.as_ref().unwrap();
        let r = catch_unwind(AssertUnwindSafe(|| server.add_version(cu, p, d.clone())));
        let (cc, cp, cd) = (self.canon.id(cu), self.canon.id(p), self.canon.payload(&d));
        let (fresh, line) = match r {
            Ok(Ok((AddVersionResult::Ok(v), u))) => {
                let reused = self.canon.seen(&v);
                self.accepted.entry(c).or_default().push((v, p));
                let n = self.canon.id(v);
                (
                    n,
                    if reused {
                        format!("added {n} {} REUSED-ID", urg(u))
                    } else {
                        format!("added {n} {}", urg(u))
                    },
                )
            }
            Ok(Ok((AddVersionResult::ExpectedParentVersion(l), _))) => {
                (self.canon.unused(), format!("conflict {}", self.canon.id(l)))
            }
            Ok(Err(ServerError::NoSuchClient)) => (self.canon.unused(), "noclient".into()),
            Ok(Err(_)) => (self.canon.unused(), "error".into()),
            Err(_) => (self.canon.unused(), "panic".into()),
        };
        self.emit(format!("av {cc} {cp} {fresh} {now} {cd}"), line);
    }

    pub fn get_child(&mut self, c: u32, pspec: &str) {
        let cu = self.client(c);
        let p = self.resolve(pspec);
        let server = self.server.as_ref().unwrap();
        let r = catch_unwind(AssertUnwindSafe(|| server.get_child_version(cu, p)));
        self.get_child_result(cu, p, r);
    }

    fn get_child_result(
        &mut self,
        cu: Uuid,
        p: Uuid,
        r: std::thread::Result<Result<GetVersionResult, ServerError>>,
    ) {
        let line = match r {
            Ok(Ok(GetVersionResult::Success { version_id, parent_version_id, history_segment })) => {
                let v = Version { version_id, parent_version_id, history_segment };
                format!("found {}", self.version_str(&v))
            }
            Ok(Ok(GetVersionResult::NotFound)) => "notfound".into(),
            Ok(Ok(GetVersionResult::Gone)) => "gone".into(),
            Ok(Err(ServerError::NoSuchClient)) => "noclient".into(),
            Ok(Err(_)) => "error".into(),
            Err(_) => "panic".into(),
        };
        let (cc, cp) = (self.canon.id(cu), self.canon.id(p));
        self.emit(format!("gcv {cc} {cp}"), line);
    }

    pub fn add_snapshot(&mut self, c: u32, vspec: &str, dspec: &str) {
        let cu = self.client(c);
        let v = self.resolve(vspec);
        let d = self.payload(dspec);
        let now = Utc::now().timestamp();
        let server = self.server.as_ref().unwrap();
        let r = catch_unwind(AssertUnwindSafe(|| server.add_snapshot(cu, v, d.clone())));
        let line = match r {
            Ok(Ok(())) => "snapack".to_string(),
            Ok(Err(ServerError::NoSuchClient)) => "noclient".into(),
            Ok(Err(_)) => "error".into(),
            Err(_) => "panic".into(),
        };
        let (cc, cv, cd) = (self.canon.id(cu), self.canon.id(v), self.canon.payload(&d));
        self.emit(format!("as {cc} {cv} {now} {cd}"), line);
    }

    pub fn get_snapshot(&mut self, c: u32) {
        let cu = self.client(c);
        let server = self.server.as_ref().unwrap();
        let r = catch_unwind(AssertUnwindSafe(|| server.get_snapshot(cu)));
        let line = match r {
            Ok(Ok(Some((v, d)))) => format!("snap {} {}", self.canon.id(v), self.canon.payload(&d)),
            Ok(Ok(None)) => "nosnap".into(),
            Ok(Err(ServerError::NoSuchClient)) => "noclient".into(),
            Ok(Err(_)) => "error".into(),
            Err(_) => "panic".into(),
        };
        let cc = self.canon.id(cu);
        self.emit(format!("gs {cc}"), line);
    }

    /// the add-version handler's create-if-absent transaction
    pub fn ensure(&mut self, c: u32) {
        let cu = self.client(c);
        let server = self.server.as_ref().unwrap();
        let r = catch_unwind(AssertUnwindSafe(|| -> anyhow::Result<()> {
            let mut txn = server.txn(cu)?;
            if txn.get_client()?.is_none() {
                txn.new_client(Uuid::nil())?;
                txn.commit()?;
            }
            Ok(())
        }));
        let line = match r {
            Ok(Ok(())) => "unit",
            Ok(Err(_)) => "error",
            Err(_) => "panic",
        };
        let cc = self.canon.id(cu);
        self.emit(format!("ensure {cc}"), line.into());
    }

    fn rewrite_snapshot(&mut self, c: u32, f: impl Fn(Snapshot) -> Snapshot) -> &'static str {
        let cu = self.client(c);
        let server = self.server.as_ref().unwrap();
        let r = catch_unwind(AssertUnwindSafe(|| -> Result<(), ServerError> {
            let mut txn = server.txn(cu)?;
            let cl = txn.get_client()?.ok_or(ServerError::NoSuchClient)?;
            if let Some(s) = cl.snapshot {
                if let Some(d) = txn.get_snapshot_data(s.version_id)? {
                    txn.set_snapshot(f(s), d)?;
                    txn.commit()?;
                }
            }
            Ok(())
        }));
        match r {
            Ok(Ok(())) => "unit",
            Ok(Err(ServerError::NoSuchClient)) => "noclient",
            Ok(Err(_)) => "error",
            Err(_) => "panic",
        }
    }

    pub fn backdate(&mut self, c: u32, secs: i64) {
        let line = self.rewrite_snapshot(c, |s| Snapshot {
            version_id: s.version_id,
            timestamp: s.timestamp - Duration::seconds(secs),
            versions_since: s.versions_since,
        });
        let cc = self.canon.id(self.clients[&c]);
        self.emit(format!("backdate {cc} {secs}"), line.into());
    }

    pub fn setcounter(&mut self, c: u32, n: u32) {
        let line = self.rewrite_snapshot(c, |s| Snapshot {
            version_id: s.version_id,
            timestamp: s.timestamp,
            versions_since: n,
        });
        let cc = self.canon.id(self.clients[&c]);
        self.emit(format!("setcounter {cc} {n}"), line.into());
    }

    /// walk the chain of client c from the parent of its first accepted version, through the
    /// real get_child_version, until something other than `found` comes back
    pub fn walk(&mut self, c: u32) {
        let cu = self.client(c);
        let acc = self.accepted.get(&c).cloned().unwrap_or_default();
        let mut p = acc.first().map(|x| x.1).unwrap_or(Uuid::nil());
        let cc = self.canon.id(cu);
        self.emit(format!("mark walk {cc} {}", acc.len()), "mark".into());
        for _ in 0..(acc.len() + 3) {
            let server = self.server.as_ref().unwrap();
            let r = catch_unwind(AssertUnwindSafe(|| server.get_child_version(cu, p)));
            let next = match &r {
                Ok(Ok(GetVersionResult::Success { version_id, .. })) => Some(*version_id),
                _ => None,
            };
            self.get_child_result(cu, p, r);
            match next {
                Some(v) => p = v,
                None => break,
            }
        }
        self.emit(format!("mark endwalk {cc}"), "mark".into());
    }

    /// fetch the snapshot and walk the chain from its version id
    pub fn swalk(&mut self, c: u32) {
        let cu = self.client(c);
        let cc = self.canon.id(cu);
        self.emit(format!("mark swalk {cc}"), "mark".into());
        let server = self.server.as_ref().unwrap();
        let r = catch_unwind(AssertUnwindSafe(|| server.get_snapshot(cu)));
        let start = match &r {
            Ok(Ok(Some((v, _)))) => Some(*v),
            _ => None,
        };
        let line = match r {
            Ok(Ok(Some((v, d)))) => format!("snap {} {}", self.canon.id(v), self.canon.payload(&d)),
            Ok(Ok(None)) => "nosnap".into(),
            Ok(Err(ServerError::NoSuchClient)) => "noclient".into(),
            Ok(Err(_)) => "error".into(),
            Err(_) => "panic".into(),
        };
        self.emit(format!("gs {cc}"), line);
        if let Some(mut p) = start {
            let n = self.accepted.get(&c).map(|v| v.len()).unwrap_or(0);
            for _ in 0..(n + 3) {
                let server = self.server.as_ref().unwrap();
                let r = catch_unwind(AssertUnwindSafe(|| server.get_child_version(cu, p)));
                let next = match &r {
                    Ok(Ok(GetVersionResult::Success { version_id, .. })) => Some(*version_id),
                    _ => None,
                };
                self.get_child_result(cu, p, r);
                match next {
                    Some(v) => p = v,
                    None => break,
                }
            }
        }
        self.emit(format!("mark endwalk {cc}"), "mark".into());
    }

    /// re-read every accepted version of client c by asking for the child of its parent
    pub fn reread(&mut self, c: u32) {
        let cu = self.client(c);
        let acc = self.accepted.get(&c).cloned().unwrap_or_default();
        for (_, parent) in acc {
            let server = self.server.as_ref().unwrap();
            let r = catch_unwind(AssertUnwindSafe(|| server.get_child_version(cu, parent)));
            self.get_child_result(cu, parent, r);
        }
    }

    pub fn reopen(&mut self) {
        if self.backend == Backend::Sqlite {
            self.open(false);
        }
        self.emit("reopen".into(), "unit".into());
    }

    /// complete protocol-visible state of one client through the transaction API:
    /// client record, snapshot data, and get_version / get_version_by_parent for every id
    /// the harness has ever seen (plus nil).
    pub fn dump(&mut self, c: u32) {
        let cu = self.client(c);
        let mut ids: Vec<Uuid> = vec![Uuid::nil()];
        ids.extend(self.canon.known.iter().cloned());
        let server = self.server.as_ref().unwrap();
        type Probe = (Uuid, Option<Version>, Option<Version>);
        let r = catch_unwind(AssertUnwindSafe(
            || -> anyhow::Result<(Option<taskchampion_sync_server_core::Client>, Option<anyhow::Result<Option<Vec<u8>>>>, Vec<Probe>)> {
                let cl = {
                    let mut txn = server.txn(cu)?;
                    txn.get_client()?
                };
                let mut probes = vec![];
                {
                    let mut txn = server.txn(cu)?;
                    for i in &ids {
                        let a = txn.get_version(*i)?;
                        let b = txn.get_version_by_parent(*i)?;
                        probes.push((*i, a, b));
                    }
                }
                let sv = cl.as_ref().and_then(|c| c.snapshot.as_ref().map(|s| s.version_id));
                let data = match sv {
                    None => None,
                    Some(v) => {
                        let mut txn = server.txn(cu)?;
                        Some(txn.get_snapshot_data(v))
                    }
                };
                Ok((cl, data, probes))
            },
        ));
        let idlist = ids.iter().map(|i| self.canon.id(*i).to_string()).collect::<Vec<_>>().join(",");
        let cc = self.canon.id(cu);
        let line = match r {
            Err(_) => "panic".to_string(),
            Ok(Err(_)) => "error".to_string(),
            Ok(Ok((cl, data, probes))) => {
                let cls = match cl {
                    None => "absent".to_string(),
                    Some(cl) => format!(
                        "latest={} snap={}",
                        self.canon.id(cl.latest_version_id),
                        match cl.snapshot {
                            None => "none".to_string(),
                            Some(s) => format!(
                                "{}@{}+{}",
                                self.canon.id(s.version_id),
                                s.timestamp.timestamp(),
                                s.versions_since
                            ),
                        }
                    ),
                };
                let ds = match data {
                    None => "na".to_string(),
                    Some(Err(_)) => "error".to_string(),
                    Some(Ok(None)) => "none".to_string(),
                    Some(Ok(Some(d))) => self.canon.payload(&d),
                };
                let ps = probes
                    .iter()
                    .map(|(i, a, b)| {
                        let sa = a.as_ref().map(|v| self.version_str(v)).unwrap_or("none".into());
                        let sb = b.as_ref().map(|v| self.version_str(v)).unwrap_or("none".into());
                        format!("{}>{}>{}", self.canon.id(*i), sa, sb)
                    })
                    .collect::<Vec<_>>()
                    .join(";");
                format!("dump {cls} data={ds} probes={ps}")
            }
        };
        self.emit(format!("dump {cc} {idlist}"), line);
    }

    pub fn dump_all(&mut self) {
        let mut cs: Vec<u32> = self.clients.keys().cloned().collect();
        cs.sort();
        for c in cs {
            self.dump(c);
        }
    }

    /// raw rows of both SQLite tables through a separate read-only connection
    pub fn rows(&mut self) {
        if self.backend != Backend::Sqlite {
            self.emit("rows".into(), "rows na".into());
            return;
        }
        let path = self.data_dir().join("taskchampion-sync-server.sqlite3");
        let line = match self.rows_inner(&path) {
            Ok(l) => l,
            Err(e) => format!("rows error {}", e.to_string().replace('\n', " ")),
        };
        self.emit("rows".into(), line);
    }

    fn rows_inner(&mut self, path: &std::path::Path) -> anyhow::Result<String> {
        use rusqlite::types::ValueRef;
        let con = rusqlite::Connection::open_with_flags(path, rusqlite::OpenFlags::SQLITE_OPEN_READ_ONLY)?;
        let id_of = |canon: &mut Canon, v: ValueRef<'_>| -> String {
            match v {
                ValueRef::Null => "NULL".into(),
                ValueRef::Text(t) => {
                    let s = String::from_utf8_lossy(t).to_string();
                    match Uuid::parse_str(&s) {
                        // the stored text form itself is part of the observation
                        Ok(u) if u.hyphenated().to_string() == s => canon.id(u).to_string(),
                        _ => format!("BADTEXT({s})"),
                    }
                }
                other => format!("BADTYPE({:?})", other.data_type()),
            }
        };
        let int_of = |v: ValueRef<'_>| -> String {
            match v {
                ValueRef::Null => "NULL".into(),
                ValueRef::Integer(i) => i.to_string(),
                other => format!("BADTYPE({:?})", other.data_type()),
            }
        };
        let mut clients = vec![];
        {
            let mut st = con.prepare("SELECT client_id, latest_version_id, snapshot_version_id, versions_since_snapshot, snapshot_timestamp, snapshot FROM clients ORDER BY rowid")?;
            let mut rows = st.query([])?;
            while let Some(r) = rows.next()? {
                let blob = match r.get_ref(5)? {
                    ValueRef::Null => "NULL".to_string(),
                    ValueRef::Blob(b) => self.canon.payload(b),
                    other => format!("BADTYPE({:?})", other.data_type()),
                };
                clients.push(format!(
                    "{}|{}|{}|{}|{}|{}",
                    id_of(&mut self.canon, r.get_ref(0)?),
                    id_of(&mut self.canon, r.get_ref(1)?),
                    id_of(&mut self.canon, r.get_ref(2)?),
                    int_of(r.get_ref(3)?),
                    int_of(r.get_ref(4)?),
                    blob
                ));
            }
        }
        clients.sort();
        let mut versions = vec![];
        {
            let mut st = con.prepare("SELECT version_id, client_id, parent_version_id, history_segment FROM versions ORDER BY rowid")?;
            let mut rows = st.query([])?;
            while let Some(r) = rows.next()? {
                let blob = match r.get_ref(3)? {
                    ValueRef::Null => "NULL".to_string(),
                    ValueRef::Blob(b) => self.canon.payload(b),
                    other => format!("BADTYPE({:?})", other.data_type()),
                };
                versions.push(format!(
                    "{}|{}|{}|{}",
                    id_of(&mut self.canon, r.get_ref(0)?),
                    id_of(&mut self.canon, r.get_ref(1)?),
                    id_of(&mut self.canon, r.get_ref(2)?),
                    blob
                ));
            }
        }
        Ok(format!("rows clients=[{}] versions=[{}]", clients.join(";"), versions.join(";")))
    }

    pub fn set_cfg(&mut self, days: i64, versions: u32) {
        self.days = days;
        self.versions = versions;
        // a new Server object over the same storage
        let shared = self.shared();
        self.server = Some(Server::new(self.cfg(), shared));
        self.out.push(format!("OP cfg {days} {versions}"));
    }

    pub fn exec(&mut self, toks: &[&str]) {
        match toks {
            ["cfg", d, v] => self.set_cfg(d.parse().unwrap(), v.parse().unwrap()),
            ["av", c, p, d] => self.add_version(c.parse().unwrap(), p, d),
            ["gcv", c, p] => self.get_child(c.parse().unwrap(), p),
            ["as", c, v, d] => self.add_snapshot(c.parse().unwrap(), v, d),
            ["gs", c] => self.get_snapshot(c.parse().unwrap()),
            ["ensure", c] => self.ensure(c.parse().unwrap()),
            ["backdate", c, s] => {
                let c = c.parse().unwrap();
                self.client(c);
                self.backdate(c, s.parse().unwrap())
            }
            ["setcounter", c, n] => {
                let c = c.parse().unwrap();
                self.client(c);
                self.setcounter(c, n.parse().unwrap())
            }
            ["txn", c, calls @ ..] => {
                // storage-trait rig: one transaction on client c, the StorageTxn calls given, then drop
                let c: u32 = c.parse().unwrap();
                self.storage_txn(c, calls);
                return;
            }
            ["race", c, nw, rounds] => {
                assert!(self.raw, "race needs the raw mode");
                self.race(c.parse().unwrap(), nw.parse().unwrap(), rounds.parse().unwrap());
                return;
            }
            ["race", c, nw, rounds, "shared"] => {
                assert!(self.raw, "race needs the raw mode");
                self.race_mode(c.parse().unwrap(), nw.parse().unwrap(), rounds.parse().unwrap(), true);
                return;
            }
            ["deadstart", k] => {
                // the data directory is what a FIRST start that died after K of its six steps left behind
                // (Setup.dead_start d_none K: 0 nothing, 1 the directory, 2 an empty database file, 3 the
                // file with its WAL header, 4 + table clients, 5 + table versions, 6 complete), produced with
                // the statements of the pinned release; then the storage is opened on it by the code under
                // test.  SQLite only; to be used before the case stores anything.
                let k: usize = k.parse().unwrap();
                if self.backend == Backend::Sqlite {
                    self.server = None;
                    self.store = None;
                    let d = self.data_dir();
                    let db = d.join("taskchampion-sync-server.sqlite3");
                    for f in ["taskchampion-sync-server.sqlite3", "taskchampion-sync-server.sqlite3-wal", "taskchampion-sync-server.sqlite3-shm"] {
                        let _ = std::fs::remove_file(d.join(f));
                    }
                    if k == 0 {
                        let _ = std::fs::remove_dir_all(&d);
                    } else {
                        std::fs::create_dir_all(&d).expect("deadstart dir");
                    }
                    if k == 2 {
                        std::fs::write(&db, b"").expect("deadstart file");
                    }
                    if k >= 3 {
                        let con = rusqlite::Connection::open(&db).expect("deadstart open");
                        con.query_row("PRAGMA journal_mode=WAL", [], |_r| Ok(())).expect("deadstart wal");
                        let qs = [
                            "CREATE TABLE IF NOT EXISTS clients (
                    client_id STRING PRIMARY KEY,
                    latest_version_id STRING,
                    snapshot_version_id STRING,
                    versions_since_snapshot INTEGER,
                    snapshot_timestamp INTEGER,
                    snapshot BLOB);",
                            "CREATE TABLE IF NOT EXISTS versions (version_id STRING PRIMARY KEY, client_id STRING, parent_version_id STRING, history_segment BLOB);",
                            "CREATE INDEX IF NOT EXISTS versions_by_parent ON versions (parent_version_id);",
                        ];
                        for q in qs.iter().take(k - 3) {
                            con.execute(q, []).expect("deadstart schema");
                        }
                    }
                    let r = std::panic::catch_unwind(std::panic::AssertUnwindSafe(|| self.open(false)));
                    if r.is_err() {
                        self.emit(format!("mark deadstart {k}"), "OPEN-FAILED".into());
                        return;
                    }
                }
                self.emit(format!("mark deadstart {k}"), "mark".into());
                return;
            }
            ["fixture", name] => {
                // start from a COPY of a data directory written by the pinned release (fixtures/c19/<name>):
                // the harness takes over the id bookkeeping recorded with it and replays the recorded
                // operations and answers (so that the model reaches the same state); SQLite only
                if self.backend == Backend::Sqlite {
                    let root = std::env::var("TSS_FIXTURES").expect("TSS_FIXTURES");
                    let fx = std::path::PathBuf::from(root).join(name);
                    let dst = self.data_dir().join("fixture-data");
                    std::fs::create_dir_all(&dst).expect("fixture dir");
                    for e in std::fs::read_dir(fx.join("data")).expect("fixture data") {
                        let e = e.unwrap();
                        std::fs::copy(e.path(), dst.join(e.file_name())).expect("fixture copy");
                    }
                    self.load_state(fx.join("ids.txt").to_str().unwrap());
                    self.keep_dir = Some(dst);
                    self.server = None;
                    self.store = None;
                    self.open(false);
                    let txt = std::fs::read_to_string(fx.join("expected.trace")).expect("fixture trace");
                    for line in txt.lines() {
                        if (line.starts_with("OP ") && !line.starts_with("OP reset")) || line.starts_with("R ") {
                            self.out.push(line.to_string());
                        }
                    }
                    // (everything above this line is the pinned release's own record of what it did)
                    self.emit(format!("mark fixture-loaded {name}"), "mark".into());
                }
                return;
            }
            ["schemastat", path] => {
                // what is there, in the terms of Setup.v, looked at on a scratch COPY (opening a database
                // recovers and checkpoints its write-ahead log: the directory itself is left as it was found)
                let src = std::path::PathBuf::from(path);
                let dbname = "taskchampion-sync-server.sqlite3";
                let line = if !src.is_dir() {
                    "dir=0 file=0 wal=0 clients=0 versions=0 index=0".to_string()
                } else if !src.join(dbname).exists() {
                    "dir=1 file=0 wal=0 clients=0 versions=0 index=0".to_string()
                } else {
                    let tmp = tempfile::TempDir::new().expect("schemastat tmp");
                    for e in std::fs::read_dir(&src).expect("schemastat read_dir") {
                        let e = e.unwrap();
                        if e.path().is_file() {
                            let _ = std::fs::copy(e.path(), tmp.path().join(e.file_name()));
                        }
                    }
                    let r = rusqlite::Connection::open(tmp.path().join(dbname)).and_then(|c| {
                        let jm: String = c.query_row("PRAGMA journal_mode", [], |r| r.get(0))?;
                        let mut names: Vec<String> = vec![];
                        {
                            let mut st = c.prepare("SELECT name FROM sqlite_master")?;
                            let mut rows = st.query([])?;
                            while let Some(r) = rows.next()? {
                                names.push(r.get::<_, String>(0)?);
                            }
                        }
                        Ok((jm, names))
                    });
                    match r {
                        Ok((jm, names)) => format!("dir=1 file=1 wal={} clients={} versions={} index={}", (jm.eq_ignore_ascii_case("wal")) as u8,
                            names.iter().any(|n| n == "clients") as u8, names.iter().any(|n| n == "versions") as u8, names.iter().any(|n| n == "versions_by_parent") as u8),
                        Err(e) => format!("unreadable:{}", e.to_string().replace(' ', "_")),
                    }
                };
                self.emit("mark schemastat".to_string(), format!("schema {line}"));
                return;
            }
            ["lockfor", ms] => {
                // another connection holds SQLite's write lock for MS milliseconds, starting now (a backup, a
                // long transaction of another instance): requests arriving meanwhile have to wait for it
                if self.backend == Backend::Sqlite {
                    let ms: u64 = ms.parse().unwrap();
                    let path = self.data_dir().join("taskchampion-sync-server.sqlite3");
                    let con = rusqlite::Connection::open(&path).expect("lockfor open");
                    con.execute_batch("BEGIN IMMEDIATE").expect("lockfor lock");
                    std::thread::spawn(move || {
                        std::thread::sleep(std::time::Duration::from_millis(ms));
                        let _ = con.execute_batch("ROLLBACK");
                        drop(con);
                    });
                }
                return;
            }
            ["sleep", ms] => {
                std::thread::sleep(std::time::Duration::from_millis(ms.parse().unwrap()));
                return;
            }
            ["subdir", name] => {
                // the data directory gets a name of the operator's choosing (characters that mean
                // something in a URI, a query or an SQL string included); SQLite only
                if self.backend == Backend::Sqlite {
                    let base = self.data_dir();
                    self.keep_dir = Some(base.join(name));
                    self.open(false);
                }
                return;
            }
            ["raw"] => {
                self.raw = true;
                self.open(true);
                return;
            }
            ["reopen"] => self.reopen(),
            ["inst", k] => {
                self.switch_inst(k.parse().unwrap());
                self.emit("reopen".to_string(), "unit".into());
            }
            ["instpre", ks @ ..] if self.backend == Backend::Sqlite => {
                // several further Server objects on the same directory, constructed back to back (their storages are
                // opened first): what a Server derives from the moment or the process it was created in is then the
                // same for all of them
                let sts: Vec<_> = ks.iter().map(|_| Arc::new(LogStore::new(SqliteStorage::new(self.data_dir()).expect("open sqlite (instpre)")))).collect();
                let cfgs: Vec<_> = ks.iter().map(|_| self.cfg()).collect();
                let svs: Vec<_> = sts.iter().zip(cfgs).map(|(st, cfg)| Server::new(cfg, Shared(st.clone()))).collect();
                for ((k, st), sv) in ks.iter().zip(sts).zip(svs) {
                    self.insts.insert(k.parse().unwrap(), (sv, st));
                }
                return;
            }
            ["instpre", ..] => return,
            ["savestate", path] => self.save_state(path),
            ["loadstate", path] => self.load_state(path),
            ["usedir", path] => {
                // switch to an existing data directory (a recovered crash image)
                self.keep_dir = Some(std::path::PathBuf::from(path));
                self.server = None;
                self.store = None;
                let r = catch_unwind(AssertUnwindSafe(|| self.open(false)));
                self.emit("usedir".into(), if r.is_ok() { "opened".into() } else { "OPEN-FAILED".into() });
                return;
            }
            ["integrity"] => {
                let path = self.data_dir().join("taskchampion-sync-server.sqlite3");
                let line = match rusqlite::Connection::open(&path).and_then(|c| c.query_row("PRAGMA integrity_check", [], |r| r.get::<_, String>(0))) {
                    Ok(s) => format!("integrity {}", s.replace(' ', "_")),
                    Err(e) => format!("integrity ERROR:{}", e.to_string().replace(' ', "_")),
                };
                self.emit("integrity".into(), line);
                return;
            }
            ["ack", n] => {
                // a marker visible in a system-call trace: everything before it was acknowledged
                use std::io::Write;
                let _ = std::io::stderr().write_all(format!("ACK {n}\n").as_bytes());
                return;
            }
            ["hold"] => {
                // a second, idle connection: while it is open no close checkpoints the WAL
                let c = rusqlite::Connection::open(self.data_dir().join("taskchampion-sync-server.sqlite3")).expect("hold");
                let _: i64 = c.query_row("SELECT count(*) FROM clients", [], |r| r.get(0)).unwrap_or(0);
                self.held = Some(c);
            }
            ["holdread"] => {
                // a second connection INSIDE a read transaction (a backup tool, a shell left open): readers never block
                // writers in WAL mode, they only keep the log from being reset
                let c = rusqlite::Connection::open(self.data_dir().join("taskchampion-sync-server.sqlite3")).expect("holdread");
                let _ = c.execute_batch("BEGIN");
                let _: i64 = c.query_row("SELECT count(*) FROM clients", [], |r| r.get(0)).unwrap_or(0);
                self.held = Some(c);
            }
            ["unhold"] => {
                self.held = None;
            }
            ["crashmid", c] => {
                // die inside a transaction that has written but not committed
                use std::io::Write;
                let c: u32 = c.parse().unwrap();
                let cu = self.client(c);
                let latest = self.accepted.get(&c).and_then(|v| v.last()).map(|x| x.0).unwrap_or(Uuid::nil());
                for l in self.out.drain(..) {
                    println!("{l}");
                }
                std::io::stdout().flush().ok();
                let server = self.server.as_ref().unwrap();
                let mut txn = server.txn(cu).expect("txn");
                txn.add_version(Uuid::new_v4(), latest, vec![0xde, 0xad]).expect("add_version");
                std::process::abort();
            }
            ["abort"] => {
                use std::io::Write;
                for l in self.out.drain(..) {
                    println!("{l}");
                }
                std::io::stdout().flush().ok();
                std::process::abort();
            }
            ["fault", spec] => {
                // fault K:before|after,...  applies to the next operation only
                let plan: Vec<(usize, bool)> = spec
                    .split(',')
                    .map(|x| {
                        let (k, w) = x.split_once(':').unwrap();
                        (k.parse().unwrap(), w == "after")
                    })
                    .collect();
                self.store.as_ref().unwrap().set_plan(plan);
                self.emit(format!("fault {spec}"), "faultset".into());
                return;
            }
            ["sqlfault", table, stmt, k] => {
                // a statement-level failure INSIDE one storage call: a trigger raises on the next
                // INSERT / UPDATE of the given table (for the next operation only).  The model is told
                // that storage call K of that operation fails without effect.  SQLite only.
                let path = self.data_dir().join("taskchampion-sync-server.sqlite3");
                let con = rusqlite::Connection::open(&path).expect("sqlfault open");
                con.execute_batch(&format!(
                    "CREATE TRIGGER IF NOT EXISTS verif_fault BEFORE {stmt} ON {table} BEGIN SELECT RAISE(ABORT, 'injected statement fault'); END;"
                )).expect("sqlfault trigger");
                self.sqlfault = true;
                self.emit(format!("fault {k}:before"), "faultset".into());
                return;
            }
            ["sqlfaultrb", k] => {
                // a TRANSIENT failure of the kind after which SQLite rolls the whole transaction back on its
                // own (disk full, I/O error, out of memory: here RAISE(ROLLBACK) from a trigger): the UPDATE that
                // moves the latest pointer fails as long as the version row it names is in the table —
                // i.e. while the transaction still holds the uncommitted INSERT — and no longer once
                // the rollback has removed that row.  The model is told that storage call K of the
                // next operation fails without effect.  SQLite only.
                let path = self.data_dir().join("taskchampion-sync-server.sqlite3");
                let con = rusqlite::Connection::open(&path).expect("sqlfaultrb open");
                con.execute_batch(
                    "CREATE TRIGGER IF NOT EXISTS verif_fault BEFORE UPDATE OF latest_version_id ON clients \
                     WHEN EXISTS (SELECT 1 FROM versions WHERE version_id = NEW.latest_version_id) \
                     BEGIN SELECT RAISE(ROLLBACK, 'injected fault: disk I/O error, transaction rolled back'); END;"
                ).expect("sqlfaultrb trigger");
                self.sqlfault = true;
                self.emit(format!("fault {k}:before"), "faultset".into());
                return;
            }
            ["fsizefault", kib, k] => {
                // the COMMIT itself fails: for the next operation only, the process may not extend any
                // file beyond KIB kibibytes (RLIMIT_FSIZE, SIGXFSZ ignored).  In WAL mode the frames of
                // a transaction are appended to the log while COMMIT executes, so an operation with a
                // payload larger than that runs every storage step successfully except the commit, which
                // SQLite answers with an I/O error after rolling the transaction back.  The model is told
                // that storage call K (the commit) of that operation fails without effect.  SQLite only.
                let kib: u64 = kib.parse().unwrap();
                crate::store::set_fsize_limit(Some(kib * 1024));
                self.fsize = true;
                self.emit(format!("fault {k}:before"), "faultset".into());
                return;
            }
            ["lockbegin", table, stmt] => {
                // another connection holds the write lock while the next operation asks for its
                // transaction, and lets go the moment that call returns; in addition the first
                // {stmt} on {table} fails (see sqlfault).  For the code as it stands the request fails
                // at the begin (busy) — that is what the model is told.
                let path = self.data_dir().join("taskchampion-sync-server.sqlite3");
                let con = rusqlite::Connection::open(&path).expect("lockbegin open");
                con.execute_batch(&format!(
                    "CREATE TRIGGER IF NOT EXISTS verif_fault BEFORE {stmt} ON {table} BEGIN SELECT RAISE(ABORT, 'injected statement fault'); END;"
                )).expect("lockbegin trigger");
                self.sqlfault = true;
                con.execute_batch("BEGIN IMMEDIATE").expect("lockbegin lock");
                *self.store.as_ref().unwrap().lock_until_begin.lock().unwrap() = Some(con);
                self.emit("fault 0:before".to_string(), "faultset".into());
                return;
            }
            ["rowfault", spec, k] => {
                // damage the stored row of one version (payload column NULL: the row can no longer be
                // decoded) for the NEXT operation only; the model is told that storage call K of that
                // operation fails.  SQLite only.
                let u = self.resolve(spec);
                let path = self.data_dir().join("taskchampion-sync-server.sqlite3");
                let con = rusqlite::Connection::open(&path).expect("rowfault open");
                let idt = u.as_hyphenated().to_string();
                let old: Vec<u8> = con
                    .query_row("SELECT history_segment FROM versions WHERE version_id = ?", [&idt], |r| r.get(0))
                    .expect("rowfault: no such version row");
                let n = con.execute("UPDATE versions SET history_segment = NULL WHERE version_id = ?", [&idt]).expect("rowfault update");
                assert_eq!(n, 1);
                self.rowfault = Some((idt, old));
                self.emit(format!("fault {k}:before"), "faultset".into());
                return;
            }
            ["walk", c] => self.walk(c.parse().unwrap()),
            ["reread", c] => self.reread(c.parse().unwrap()),
            ["swalk", c] => self.swalk(c.parse().unwrap()),
            ["mark", rest @ ..] => {
                let m = rest.join(" ");
                self.emit(format!("mark {m}"), "mark".into())
            }
            ["dump", c] => self.dump(c.parse().unwrap()),
            ["dumpall"] => self.dump_all(),
            ["rows"] => self.rows(),
            other => panic!("bad symbolic op {:?}", other),
        }
        self.after_op();
    }

    /// a fault plan applies to one operation; report how many faults actually fired
    pub fn after_op(&mut self) {
        if self.fsize {
            self.fsize = false;
            crate::store::set_fsize_limit(None);
            self.emit("mark fired 1".to_string(), "mark".into());
            return;
        }
        if self.sqlfault {
            self.sqlfault = false;
            if let Some(st) = self.store.as_ref() {
                if let Some(c) = st.lock_until_begin.lock().unwrap().take() {
                    let _ = c.execute_batch("ROLLBACK");
                }
            }
            let path = self.data_dir().join("taskchampion-sync-server.sqlite3");
            let con = rusqlite::Connection::open(&path).expect("sqlfault open");
            con.execute_batch("DROP TRIGGER IF EXISTS verif_fault").expect("sqlfault drop");
            self.emit("mark fired 1".to_string(), "mark".into());
            return;
        }
        if let Some((idt, old)) = self.rowfault.take() {
            let path = self.data_dir().join("taskchampion-sync-server.sqlite3");
            let con = rusqlite::Connection::open(&path).expect("rowfault open");
            con.execute("UPDATE versions SET history_segment = ? WHERE version_id = ?", rusqlite::params![old, idt]).expect("rowfault restore");
            self.emit("mark fired 1".to_string(), "mark".into());
            return;
        }
        if let Some(st) = self.store.as_ref() {
            let had = !st.faults.lock().unwrap().plan.is_empty();
            let fired = st.clear_plan();
            if had {
                self.emit(format!("mark fired {fired}"), "mark".into());
            }
        }
    }
}

/// `harness lib <inmem|sqlite> <seed>`: symbolic cases on stdin, OP/R lines on stdout
pub fn main_lib(backend: Backend, seed: u64) {
    // panics inside the implementation are caught and reported as `panic` responses
    crate::store::install_panic_recorder();
    let stdin = std::io::stdin();
    let stdout = std::io::stdout();
    let mut w = std::io::BufWriter::new(stdout.lock());
    let mut ctx: Option<Ctx> = None;
    let mut k = 0u64;
    for line in stdin.lock().lines() {
        let line = line.unwrap();
        let toks: Vec<&str> = line.split_whitespace().collect();
        match toks.as_slice() {
            [] => {}
            ["case", name] => {
                k += 1;
                ctx = Some(Ctx::new(backend, seed.wrapping_add(k.wrapping_mul(0x9E37))));
                writeln!(w, "# case {name}").unwrap();
                writeln!(w, "OP reset {}", if backend == Backend::Sqlite { "sqlite" } else { "inmem" }).unwrap();
            }
            ["end"] => {
                if let Some(c) = ctx.take() {
                    for l in &c.out {
                        writeln!(w, "{l}").unwrap();
                    }
                }
            }
            other => {
                let c = ctx.as_mut().expect("op outside case");
                // operations that kill the process must not lose what was produced so far
                if matches!(other[0], "abort" | "crashmid") {
                    w.flush().unwrap();
                }
                let what = other.join(" ");
                let mut extra: Vec<String> = vec![];
                crate::store::guarded(&mut extra, &what, || c.exec(other));
                c.out.append(&mut extra);
                // flush what the case produced so far (keeps memory flat for long cases)
                for l in c.out.drain(..) {
                    writeln!(w, "{l}").unwrap();
                }
                w.flush().unwrap();
            }
        }
    }
    w.flush().unwrap();
}
