#!/usr/bin/env python3
"""tools/mkfixtures.py — (re)creates /verif/fixtures/c19: data directories written BY THE PINNED
TREE a6bc6ed (a scratch git worktree, removed afterwards), each with the trace the pinned code
produced (expected content) and the harness's id bookkeeping.  Run once; the output is committed."""
import os, random, shutil, subprocess, sys
ROOT = os.path.dirname(os.path.dirname(os.path.abspath(__file__)))
sys.path.insert(0, ROOT)
PINNED = "a6bc6ed"
WT = "/tmp/pinned-tree"
OUT = os.path.join(ROOT, "fixtures", "c19")
subprocess.run(f"git -C /repo worktree remove --force {WT} 2>/dev/null; git -C /repo worktree add -q --detach {WT} {PINNED}", shell=True, check=True)
try:
    env = dict(os.environ, TSS_REPO=WT)
    r = subprocess.run([sys.executable, "-c", "import sys; sys.path.insert(0, %r); from vlib import build; ok, b, log = build.build_harness(); print(b if ok else 'FAIL ' + log)" % ROOT],
                       env=env, capture_output=True, text=True)
    binp = r.stdout.strip().split("\n")[-1]
    assert os.path.exists(binp), r.stdout + r.stderr
    from vlib.gen import HistGen, payload
    only = sys.argv[1:]          # names to (re)create; none = all
    if not only:
        shutil.rmtree(OUT, ignore_errors=True)
    os.makedirs(OUT, exist_ok=True)
    specs = []
    for k in range(6):
        specs.append((f"hist{k}", k, "clean"))
    specs += [("big", 100, "big"), ("wal-committed", 101, "hold-abort"), ("wal-uncommitted", 102, "crashmid"), ("wal-big", 103, "hold-abort-big")]
    specs.append(("huge", 104, "huge"))
    specs.append(("max", 105, "max"))
    for name, seed, kind in specs:
        if only and name not in only:
            continue
        rng = random.Random(seed)
        d = os.path.join(OUT, name)
        shutil.rmtree(d, ignore_errors=True)
        os.makedirs(os.path.join(d, "data"))
        g = HistGen(rng, rng.choice([2, 3, 4]), adversarial=(seed % 2 == 1), reopen=True, harness_steps=True)
        ops = []
        n = rng.randint(25, 70)
        for i in range(n):
            ops += g.op()
            if kind.startswith("hold") and i == n // 3:
                ops.append("hold")
        if "big" in kind:
            for c in sorted(g.created):
                ops += [f"av {c} latest:{c} r:{rng.choice([70000, 300000, 2000000])}", f"as {c} latest:{c} r:{rng.choice([5000, 1000000])}"]
        if kind == "huge":
            # payloads near the top of what the pinned release accepts over HTTP (100 MiB bodies): a
            # 40 MiB history segment and a 36 MiB snapshot, cheap content
            ops = ["ensure 1", "av 1 nil z:1000:1", "av 1 latest:1 z:41943040:2", "av 1 latest:1 b:3", "as 1 latest:1 z:37748736:4",
                   "av 1 latest:1 b:5", "ensure 2", "av 2 fresh b:1,2", "av 2 latest:2 z:17825792:6", "as 2 latest:2 b:7", "av 2 latest:2 b:8"]
        if kind == "max":
            # a snapshot of exactly the largest body the pinned release accepts over HTTP (100 MiB), cheap content
            ops = ["ensure 1", "av 1 nil z:1000:1", "av 1 latest:1 b:3", "as 1 latest:1 z:104857600:4", "av 1 latest:1 b:5",
                   "ensure 2", "av 2 fresh b:1,2", "as 2 latest:2 b:7", "av 2 latest:2 b:8"]
        ops += ["dumpall", f"savestate {d}/ids.txt"]
        if kind.startswith("hold"):
            ops.append("abort")
        if kind == "crashmid":
            ops.append(f"crashmid {sorted(g.created)[0]}")
        text = f"case {name}\n" + "\n".join(ops) + "\nend\n"
        open(os.path.join(d, "history.sym"), "w").write(text)
        p = subprocess.run([binp, "lib", "sqlite"], input=text, capture_output=True, text=True,
                           env=dict(os.environ, TSS_KEEP_DIR=os.path.join(d, "data"), VERIF_SEED=str(seed)))
        open(os.path.join(d, "expected.trace"), "w").write(p.stdout)
        files = sorted(os.listdir(os.path.join(d, "data")))
        print(name, kind, "rc", p.returncode, files, sum(os.path.getsize(os.path.join(d, "data", f)) for f in files))
        open(os.path.join(d, "README"), "w").write(
            f"written by taskchampion-sync-server at the pinned commit {PINNED} through the harness (history.sym); "
            f"kind={kind}; harness exit code {p.returncode} (134 = deliberate abort); files: {files}\n")
finally:
    subprocess.run(f"git -C /repo worktree remove --force {WT}; git -C /repo worktree prune", shell=True)
