#!/usr/bin/env python3
"""tools/confirm_seed.py <out dir of a sub-agent> <seed id> <crate dir for the demo test, e.g. server> <package> [round]
Confirms a seeded change in a scratch worktree of /repo (never /repo itself): the patch applies, the
existing suite passes with it, the demonstration fails with it and passes without it.  On success the
seed is stored under /verif/seeded/<id>/ (patch.diff, demo/, meta.json)."""
import json, os, shutil, subprocess, sys, glob

out, sid, crate, pkg = sys.argv[1:5]
rnd = int(sys.argv[5]) if len(sys.argv) > 5 else 3
ROOT = os.path.dirname(os.path.dirname(os.path.abspath(__file__)))
src = os.path.join(out, sid)
wt = f"/tmp/seedconfirm/{sid}"
env = dict(os.environ, CARGO_NET_OFFLINE="true")


def sh(cmd, **kw):
    return subprocess.run(cmd, shell=True, capture_output=True, text=True, env=env, **kw)


os.makedirs("/tmp/seedconfirm", exist_ok=True)
sh(f"git -C /repo worktree remove --force {wt}")
assert sh(f"git -C /repo worktree add -q --detach {wt} HEAD").returncode == 0
try:
    demos = [f for f in glob.glob(os.path.join(src, "demo", "*.rs"))]
    assert demos, "no demo .rs file"
    tests_dir = os.path.join(wt, crate, "tests")
    names = []

    def put_demo():
        os.makedirs(tests_dir, exist_ok=True)
        for d in demos:
            shutil.copy(d, tests_dir)
            names.append(os.path.basename(d)[:-3])

    def run_demo():
        rcs = []
        for n in sorted(set(names)):
            r = sh(f"cargo test --offline -p {pkg} --test {n} 2>&1 | tail -15", cwd=wt)
            ok = "test result: ok" in r.stdout and "FAILED" not in r.stdout
            rcs.append((n, ok, r.stdout[-600:]))
        return rcs

    res = {}
    # 1. without the patch: demo passes
    put_demo()
    d0 = run_demo()
    res["demo_passes_without_patch"] = all(ok for _, ok, _ in d0)
    for d in demos:
        os.remove(os.path.join(tests_dir, os.path.basename(d)))
    # 2. patch applies; suite passes
    r = sh(f"git -C {wt} apply {src}/patch.diff")
    res["patch_applies"] = r.returncode == 0
    r = sh("cargo test --workspace --no-fail-fast --offline 2>&1 | grep 'test result'", cwd=wt)
    lines = [l.strip() for l in r.stdout.split("\n") if l.strip()]
    res["existing_suite_passes_with_patch"] = bool(lines) and all(" 0 failed" in l and "ok." in l for l in lines)
    res["suite_output"] = lines
    # 3. with the patch: demo fails
    put_demo()
    d1 = run_demo()
    res["demo_fails_with_patch"] = all(not ok for _, ok, _ in d1)
    res["how"] = (f"scratch worktree of /repo HEAD: demo copied to {crate}/tests and run without the patch; git apply patch.diff; "
                  f"cargo test --workspace --no-fail-fast --offline; demo run again")
    good = all(res[k] for k in ("demo_passes_without_patch", "patch_applies", "existing_suite_passes_with_patch", "demo_fails_with_patch"))
    print(sid, "CONFIRMED" if good else "NOT CONFIRMED", {k: v for k, v in res.items() if k != "suite_output"})
    if not good:
        print(d0, d1, lines)
        sys.exit(1)
    dst = os.path.join(ROOT, "seeded", sid)
    shutil.rmtree(dst, ignore_errors=True)
    os.makedirs(dst)
    shutil.copy(os.path.join(src, "patch.diff"), dst)
    shutil.copytree(os.path.join(src, "demo"), os.path.join(dst, "demo"))
    meta = json.load(open(os.path.join(src, "meta.json")))
    meta.update({"id": sid, "property": sid.split("-")[0], "round": rnd,
                 "written_by": "independent sub-agent given only the property text (plus a list of ideas already explored) and a scratch worktree",
                 "confirmed_by_me": res, "detected_by": "(see DESIGN.md 0.6 / tools/seedrun.py)"})
    json.dump(meta, open(os.path.join(dst, "meta.json"), "w"), indent=1)
finally:
    sh(f"git -C /repo worktree remove --force {wt}; git -C /repo worktree prune")
