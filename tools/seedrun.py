#!/usr/bin/env python3
"""tools/seedrun.py <seeded id> [property ids...]: run checks against a seeded defect in a scratch
copy of /repo (git worktree under /tmp/seedrun), never touching /repo itself.  Prints which
checks report a violation.  Results are appended to /verif/seeded/<id>/runs.json."""
import json, os, subprocess, sys, time
ROOT = os.path.dirname(os.path.dirname(os.path.abspath(__file__)))
sid = sys.argv[1]
props = sys.argv[2:]
manifest = json.load(open(f"{ROOT}/MANIFEST.json"))
if not props:
    props = [c["property_id"] for c in manifest["checks"]]
wt = f"/tmp/seedrun/{sid}"
os.makedirs("/tmp/seedrun", exist_ok=True)
subprocess.run(f"git -C /repo worktree remove --force {wt} 2>/dev/null; git -C /repo worktree add -q --detach {wt} HEAD", shell=True, check=True)
try:
    subprocess.run(f"git -C {wt} apply {ROOT}/seeded/{sid}/patch.diff", shell=True, check=True)
    # start from the dependency artefacts already built for the unchanged tree (only the crates of the
    # repository itself and the harness are rebuilt for the scratch copy)
    for src, dst in ((f"{ROOT}/.cache/harness-target", f"{wt}/target-harness"), (f"{ROOT}/.cache/repo-target", f"{wt}/target-bin")):
        if os.path.isdir(src) and not os.path.exists(dst):
            subprocess.run(["cp", "-a", "--reflink=auto", src, dst])
    env = dict(os.environ, TSS_REPO=wt, TSS_EVIDENCE=f"{wt}/evidence", TSS_REPLAYS=f"{wt}/replays")
    os.makedirs(f"{wt}/evidence", exist_ok=True); os.makedirs(f"{wt}/replays", exist_ok=True)
    res = {}
    for p in props:
        t0 = time.time()
        r = subprocess.run([f"{ROOT}/check", p, "quick"], cwd=ROOT, env=env, capture_output=True, text=True)
        viol = [l for l in r.stdout.split("\n") if l.startswith("VIOLATION")]
        msg = [l for l in r.stderr.split("\n") if l.startswith("[check] oracle") or l.startswith("[check] corr")][:2]
        res[p] = {"rc": r.returncode, "violation": bool(viol), "line": viol[:1], "why": [m[:300] for m in msg], "s": round(time.time() - t0)}
        print(sid, p, "rc", r.returncode, "VIOLATION" if viol else "-", (msg[0][:200] if msg else ""), flush=True)
        if r.returncode not in (0, 1):
            print(r.stderr[-1500:])
    runs_p = os.environ.get("SEED_OUT", f"{ROOT}/seeded") + f"/{sid}.runs.json"
    runs = json.load(open(runs_p)) if os.path.exists(runs_p) else []
    runs.append({"at_commit": subprocess.run(f"git -C {ROOT} rev-parse --short HEAD", shell=True, capture_output=True, text=True).stdout.strip(), "results": res})
    json.dump(runs, open(runs_p, "w"), indent=1)
finally:
    subprocess.run(f"git -C /repo worktree remove --force {wt}; git -C /repo worktree prune", shell=True)
