#!/bin/bash
# tools/seedown.sh [parallelism] [seed ids...]: run each seeded defect against the check of ITS OWN
# property only (quick tier); meant for `vp run -- tools/seedown.sh` (snapshot of /verif).
cd "$(dirname "$0")/.."
P=${1:-4}; shift
# (changes that a later fix: commit made harmless are marked `superseded` in their meta.json and left out)
ids="$@"; [ -z "$ids" ] && ids=$(ls seeded | grep -E "^C[0-9][0-9]-[a-z]$" | while read s; do grep -q '"superseded"' seeded/$s/meta.json || echo $s; done)
./setup.sh > /dev/null 2>&1
mkdir -p seedout; export SEED_OUT=$PWD/seedout
echo $ids | tr ' ' '\n' | xargs -P $P -I{} sh -c 'id={}; python3 tools/seedrun.py $id ${id%%-*} > seedout/$id.own.log 2>&1'
for f in seedout/*.own.log; do grep -h " rc " $f | cut -c1-260; done
