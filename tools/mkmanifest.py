#!/usr/bin/env python3
"""Regenerates /verif/MANIFEST.json from the table below (kept by hand)."""
import json
props = [json.loads(l) for l in open('/verif/properties.jsonl')]
L1 = ("Trusted: Coq kernel; hand-written model tied to /repo by the differential run (Rust harness on the real Server over "
      "InMemoryStorage and SqliteStorage vs the extracted model); extraction (ExtrOcamlBasic); OCaml driver; freshness of "
      "Uuid::new_v4 (oracle_ok) assumed in the theorems and checked on the real ids of every run.")
L2 = ("Trusted: Coq kernel; hand-written HTTP model (Http.v) tied to /repo by running the real actix handlers in process "
      "(App::new().configure(webserver.config) + test::call_service) against the extracted model; the CLASS of each request part "
      "(id text form, content-type form, body chunking) is chosen by the generator, never parsed back by the harness; "
      "actix-web's routing, extractors, middleware and body streaming are mirrored by hand, not modelled internally.")
CLAIMS = {
 "C05": ("proof", "Coq theorems over EVERY fault plan (any number of faults, begin / reads / writes / commit, before or after effect) on the SQLite table model: C05_fault_atomic and C05_ack_implies_commit for the library entry points, C05_http_fault_atomic for every HTTP request (fault-free outcome, or 500 with the database at a transaction boundary of the fault-free run); correspondence: the real SQLite backend behind a fault-injecting storage wrapper, every storage-call index x before/after (+ double faults) for each request kind (library and HTTP) in several states, compared with the extracted fault semantics, dumps before/after, probe requests afterwards.", "DESIGN.md 6 C05", L2 + " That a dropped rusqlite connection releases its lock / rolls back is established only by the run.",
         "Coq proof + exhaustive single-fault enumeration against the real backend"),
 "C06": ("proof", "Coq theorems: chunking irrelevant, the library receives exactly the concatenation for every size 1..MAX_SIZE (all chunk lists), the store returns what it was given with matching ids on both backends (C07/C11 instances), HTTP bodies carry it (encode); correspondence: length sweep across the SQLite page / overflow thresholds, byte classes, chunkings, versions and snapshots, both backends, re-read after reopen. The real-socket / chunked transfer-encoding part and BLOB binding are validated by the run only (partial).", "DESIGN.md 6 C06", L2,
         "Coq proof + in-process HTTP differential run over payload sizes/classes/chunkings"),
 "C14": ("proof", "Coq theorems C14_http_encodes_outcome (every HTTP history on both backends: response = default_headers (encode library-outcome), absence of headers included), per-endpoint encode lemmas for every backend and store, C14_encode_table; correspondence: every history through the real handlers and, as a twin, through the library on a second storage, compared via the table re-implemented from the property text, plus the extracted model.", "DESIGN.md 6 C14", L2,
         "Coq proof + twin-run (HTTP vs library) differential test"),
 "C15": ("proof", "Coq theorems: C15_malformed_4xx_no_effect (every refusal class: 4xx, empty storage-call trace, store unchanged, any backend/store), C15_limit_inclusive, C15_body_accepted_iff, C15_no_5xx (every HTTP history, both backends: status in {200,400,403,404,409,410}); correspondence: request grid (route x method x client-id form x path-id form x content-type form x body class incl. the 100 MiB limit +-1) against servers with state, dumps and raw rows before/after.", "DESIGN.md 6 C15", L2 + " Requests the HTTP parser rejects before routing are outside the application.",
         "Coq proof + grammar-based request grid, differential"),
 "C16": ("proof", "Coq theorems C16_unlisted_403_no_access (exactly 403, empty storage-call trace, store unchanged, all four endpoints, any backend/store), C16_unlisted_never_reaches_storage, C16_listed_transparent (same handler program as without a list); correspondence: allow-lists x endpoints x listed/unlisted/malformed ids with a logging storage (zero storage calls), unlisted client owning earlier data, listed clients twin-run against a list-free server.", "DESIGN.md 6 C16", L2,
         "Coq proof + differential run with storage-call log and twin run"),
 "C20": ("proof", "Thin: C20_cache_control_everywhere holds in the model because the default-headers wrapper encloses the whole routing function; the run checks the header on every response of a request grid (all routes incl. unknown, methods, refusals) and of protocol histories on the real handlers. Storage-fault 500s are covered by the C05 run.", "DESIGN.md 6 C20", L2,
         "Coq proof (thin) + header check on every response of the HTTP explorations"),
 "C01": ("proof", "Coq theorems C01_parents_unique and C01_chain_walk for every history, every client, both backend models (refinement of an abstract store + chain invariant for every reachable state); correspondence: random adversarial multi-client histories with reopen on both real backends, end-to-end walks through the real get_child_version, compared with the extracted model and with a direct oracle.", "DESIGN.md 6 C01", L1,
         "Coq proof (invariant by induction over histories + backend refinement) + differential correspondence"),
 "C02": ("proof", "Coq theorems C02_add_version_cas / C02_accepted_is_stored / C02_rejected_no_effect for every history and backend; correspondence: every class of requested parent issued against replayed copies of visited states on both real backends with complete dumps of all clients before and after, compared with the extracted model and with a compare-and-append oracle written from the property text.", "DESIGN.md 6 C02", L1,
         "Coq proof + differential correspondence with state dumps"),
 "C07": ("proof", "Coq theorem C07_history_immutable (any suffix history, both backends); correspondence: every accepted version re-read after later operations of every kind and after reopen on the real backends.", "DESIGN.md 6 C07", L1,
         "Coq proof + differential correspondence"),
 "C08": ("proof", "Coq theorem C08_child_vs_add (both requests from the same reached state, every history, every p, both backends); correspondence: GetChildVersion(p) then AddVersion(p) on replayed copies of visited states for every class of p.", "DESIGN.md 6 C08", L1,
         "Coq proof + differential correspondence"),
 "C09": ("proof", "Coq theorem C09_noninterference: on both backend models, for every history and client, the responses to the client's own requests equal the responses of its requests run alone (id arguments unrestricted, foreign ids included); correspondence: two-run non-interference on the real backends (each client's projection re-run alone on a fresh backend) plus model comparison.", "DESIGN.md 6 C09", L1,
         "Coq proof (two-run simulation over the abstract store) + two-run differential test"),
 "C10": ("proof", "Coq theorems C10_snapshot_rule (acceptance iff the rule of the property, over the five most recent versions), C10_snapshot_monotone, C10_declined_no_effect, C10_base_corner (the open corner characterised) for every history and backend; correspondence: exhaustive small scope (chain length x base x existing snapshot position x requested version) plus random histories on both real backends with dumps before/after, compared with the extracted model and with a rule oracle written from the property text.", "DESIGN.md 6 C10", L1,
         "Coq proof + exhaustive small-scope differential correspondence"),
 "C11": ("proof", "Coq theorems C11_get_snapshot_latest (GetSnapshot = the most recently accepted upload, recomputed from requests/responses by the rule) and C11_snapshot_usable_base (walk from the snapshot id yields the rest of the chain, never gone) for every history and backend; correspondence: GetSnapshot + walk from the snapshot after every operation on both real backends. The concurrent half (overlap with AddVersion) is decided under C03.", "DESIGN.md 6 C11", L1,
         "Coq proof + differential correspondence"),
 "C13": ("proof", "Coq theorems C13_backends_agree / C13_backends_refine_contract (both backend models give the abstract store's responses on every history) and C13_reopen_noop; correspondence: lock-step run of the same symbolic histories on the real in-memory and SQLite backends with reopen at random points, responses compared across backends and raw SQLite rows compared with the table model.", "DESIGN.md 6 C13", L1 + " Reopen is the identity in the model (CREATE ... IF NOT EXISTS): that SqliteStorage::new really preserves the tables is established only by the lock-step run.",
         "Coq proof (two refinements of one abstract store) + lock-step differential run"),
 "C18": ("proof", "Coq theorems: C18_reads_pure and C18_rejected_add_version_pure (Leibniz equality of the InMem maps / SQLite tables for ANY store contents), C18_reads_no_effect / C18_conflict_no_effect / C18_declined_snapshot_no_effect (deleting the request changes no later response, complete dumps included); correspondence: complete dumps of all clients and raw SQLite rows before and after every operation on the real backends, non-mutating outcomes decided by the rule.", "DESIGN.md 6 C18", L1,
         "Coq proof + differential correspondence with full dumps"),
 "C12": ("proof", "Coq theorems over all i64/u32 targets and all measures (no overflow, high>=low, classification, monotonicity) about a model of the urgency arithmetic; tied to /repo by running the extracted model and the real Server on a grid of targets (type extremes included) and on real histories; plus a Python oracle from the property text on the implementation's own trace.", "DESIGN.md 6 C12", L1 + " Counter bound < 2^32 is in the statement.",
         "Coq proof (lia over Z) + differential correspondence"),
}
checks = []
for pid, (cat, text, ref, note, tech) in sorted(CLAIMS.items()):
    checks.append({"property_id": pid, "quick_cmd": f"./check {pid} quick", "thorough_cmd": f"./check {pid} thorough",
                   "evidence_file": f"/verif/evidence/{pid}.json", "replay_cmd_template": f"./check {pid} --replay {{path}}",
                   "engine": "coq+harness", "level_claimed": {"category": cat, "text": text, "design_ref": ref},
                   "level_note": note, "technique": tech})
na = [{"property_id": p['id'], "reason": "check not yet registered in this commit (framework under construction; to be claimed in a later commit)"}
      for p in props if p['id'] not in CLAIMS]
served = sorted(CLAIMS)
m = {"version": 1, "setup_cmd": "./setup.sh",
     "hooks": {"guard": "tss_verif", "enable": "RUSTFLAGS='--cfg tss_verif' (no source hook exists: the harness reaches the code through public API only)",
               "baseline_off_cmd": "cd /repo && cargo test --workspace --no-fail-fast --offline", "source_commits": [], "add_only": True},
     "engines": [{"name": "coq", "path": "/verif/coq", "serves_properties": served, "kind_free_text": "Coq 8.16.1 development: model (theories/), proofs (theories/proofs), property statements (props/)"},
                 {"name": "harness", "path": "/verif/harness", "serves_properties": served, "kind_free_text": "Rust crate with path dependencies on /repo's crates: runs the implementation on generated histories"},
                 {"name": "runner", "path": "/verif/runner", "serves_properties": served, "kind_free_text": "extracted OCaml model + driver"}],
     "checks": checks, "not_applicable": na,
     "notes": "Genuine defects repaired in /repo by fix: commits 9237c81 (C12) and ab380e1 (C03); see known_findings.json and DESIGN.md section 7."}
json.dump(m, open('/verif/MANIFEST.json', 'w'), indent=1)
print("claimed:", served)
