#!/bin/bash
# tools/seedall.sh [parallelism] [seed ids...]: run every registered check against every seeded
# defect in scratch worktrees; meant for `vp run -- tools/seedall.sh` (snapshot of /verif).
cd "$(dirname "$0")/.."
P=${1:-4}; shift
ids="$@"; [ -z "$ids" ] && ids=$(ls seeded | grep -E "^C[0-9][0-9]-[a-z]$")
./setup.sh > /dev/null 2>&1
mkdir -p seedout; export SEED_OUT=$PWD/seedout
echo $ids | tr ' ' '\n' | xargs -P $P -I{} sh -c 'python3 tools/seedrun.py {} > seedout/{}.log 2>&1'
cat seedout/*.log | grep VIOLATION | awk '{print $1, $2}' | sort | uniq | awk '{a[$1]=a[$1]" "$2} END{for(k in a) print k":"a[k]}' | sort
