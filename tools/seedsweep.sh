#!/bin/bash
# tools/seedsweep.sh [seeds...]: every registered quick check on the unchanged tree under several
# seeds; prints any run that exits non-zero or prints VIOLATION (there must be none).
cd "$(dirname "$0")/.."
./setup.sh > /dev/null 2>&1
seeds="$@"; [ -z "$seeds" ] && seeds="2 3 4 5"
for s in $seeds; do
  for p in $(python3 -c "import json; print(' '.join(c['property_id'] for c in json.load(open('MANIFEST.json'))['checks']))"); do
    out=$(TSS_EVIDENCE=/tmp/sweep-ev VERIF_SEED=$s ./check $p quick 2>&1); rc=$?
    if [ $rc -ne 0 ] || echo "$out" | grep -q VIOLATION; then echo "SEED $s $p rc=$rc"; echo "$out" | tail -3 | cut -c1-400; fi
  done
  echo "seed $s done"
done
