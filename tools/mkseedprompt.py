#!/usr/bin/env python3
"""tools/mkseedprompt.py <property id> <suffix letters, e.g. ef>: creates a scratch worktree
/tmp/seedwork/<id> of /repo and the prompt /tmp/seedwork/<id>.prompt.txt for an independent
sub-agent (property text + summaries of the seeded ideas already stored; nothing else from /verif)."""
import json, os, subprocess, sys
pid, suf = sys.argv[1], sys.argv[2]
props = {json.loads(l)['id']: json.loads(l) for l in open('/verif/properties.jsonl')}
prior = []
for d in sorted(os.listdir('/verif/seeded')):
    if d.startswith(pid + '-') and not d.endswith('.json'):
        prior.append(json.load(open(f'/verif/seeded/{d}/meta.json'))['summary'][:500])
wt = f'/tmp/seedwork/{pid}'
os.makedirs('/tmp/seedwork', exist_ok=True)
subprocess.run(f'git -C /repo worktree remove --force {wt} 2>/dev/null; git -C /repo worktree add -q --detach {wt} HEAD', shell=True, check=True)
p = props[pid]
a, b = f"{pid}-{suf[0]}", f"{pid}-{suf[1]}"
txt = f"""You are helping to test a verification effort for the Rust project taskchampion-sync-server (an HTTP sync server for the TaskChampion protocol: crates `core`, `sqlite`, `server`). You have your own scratch git worktree of the repository at {wt} (work ONLY there; never touch /repo or /verif; do not read anything under /verif). The sandbox has no network: use `cargo ... --offline` only (CARGO_NET_OFFLINE=true). The existing test suite is run with: cd {wt} && cargo test --workspace --no-fail-fast --offline

Here is a semantic PROPERTY the project is supposed to satisfy:

id: {pid}
title: {p['title']}
statement: {p['statement']}
quantifier: {p['quantifier']['text']}
why unit tests cannot settle it: {p['why_tests_cant']}
anchored in: {', '.join(p['anchors']['files'])}

YOUR TASK: write TWO different, realistic source changes (call them {a} and {b}) to the repository, each of which BREAKS this property while (1) still compiling, (2) still passing the whole existing test suite unedited, and (3) looking like a plausible refactoring / optimisation / tidy-up a maintainer could make by mistake (give it a plausible motivation in a code comment or in your summary). Each change must need something SPECIFIC to manifest — a particular interleaving, a crash or fault at a particular point, a multi-step sequence of operations, an unusual input or configuration, or two cooperating sites that each look fine alone — NOT something ordinary use would expose at once. The two changes must use different mechanisms, and must differ from these ideas that were already explored:
""" + "\n".join(f"  - {x}" for x in prior) + f"""

For EACH change deliver, under {wt}/out/{a}/ and {wt}/out/{b}/ :
  - patch.diff : `git diff` of the change against the worktree's HEAD (source files only; it must apply with `git apply` to a clean checkout). Do NOT include the demonstration in the patch.
  - demo/ : a demonstration — ONE Rust integration test file (to be copied into the `tests/` directory of one of the crates `core`, `sqlite` or `server`) plus demo/README.md saying exactly where to copy it and which command to run — that FAILS with the change applied and PASSES without it. It must exercise the real code (library API, HTTP handlers via actix test utilities, or the built binary), and run in well under two minutes.
  - meta.json with keys: id, property, summary (what was changed, where, the stated motivation), why_breaks (why the property fails), needs_to_manifest (the specific state / interleaving / fault / input needed), files_changed (list).
Before finishing, VERIFY each change yourself: apply it on a clean tree, run the full existing suite (must pass), run the demo (must fail); then revert the change and run the demo again (must pass). Leave the worktree's tracked files clean (git checkout -- . ; remove any test files you added outside out/) when you are done, and delete the `target` build directory inside the worktree to save disk. Report in your final message, for each change: the one-paragraph summary, which crate's tests/ directory the demo goes into and the cargo package name, and the exact verification commands with their observed results."""
open(f'/tmp/seedwork/{pid}.prompt.txt', 'w').write(txt)
print(wt)
