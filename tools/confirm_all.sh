#!/bin/bash
# tools/confirm_all.sh ROUND [PAR]: confirms every sub-agent output under /tmp/seedwork/*/out/<id> that is not stored yet;
# the crate whose tests/ directory the demonstration goes into is read from the demonstration's README
round=$1; par=${2:-3}
cd "$(dirname "$0")/.."
for d in /tmp/seedwork/C*/out/C*-*; do
  [ -d "$d" ] || continue
  id=$(basename $d); prop=${id%%-*}
  [ -d seeded/$id ] && continue
  [ -f $d/patch.diff ] && [ -f $d/meta.json ] || continue
  rd=$(cat $d/demo/README.md 2>/dev/null)
  crate=""
  for c in sqlite server core; do if echo "$rd" | grep -q "$c/tests"; then crate=$c; break; fi; done
  [ -z "$crate" ] && { echo "$id: crate not found in README"; continue; }
  case $crate in sqlite) pkg=taskchampion-sync-server-storage-sqlite;; core) pkg=taskchampion-sync-server-core;; server) pkg=taskchampion-sync-server;; esac
  echo "/tmp/seedwork/$prop/out $id $crate $pkg $round"
done | xargs -P $par -I{} sh -c 'set -- {}; python3 tools/confirm_seed.py $1 $2 $3 $4 $5 2>&1 | tail -1 | cut -c1-100'
