#!/bin/bash
# tools/thoroughsweep.sh: every registered thorough check once on the unchanged tree, with timing
cd "$(dirname "$0")/.."
./setup.sh > /dev/null 2>&1
for p in $(python3 -c "import json; print(' '.join(c['property_id'] for c in json.load(open('MANIFEST.json'))['checks']))"); do
  t0=$(date +%s)
  out=$(TSS_EVIDENCE=/tmp/thor-ev ./check $p thorough 2>&1); rc=$?
  t1=$(date +%s)
  echo "$p thorough rc=$rc $((t1-t0))s"
  if [ $rc -ne 0 ] || echo "$out" | grep -q VIOLATION; then echo "$out" | tail -4 | cut -c1-500; fi
done
