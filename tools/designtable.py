#!/usr/bin/env python3
"""tools/designtable.py: rewrites the table between the DETECTION-TABLE markers of DESIGN.md from
seeded/DETECTION.json (written by tools/seedmatrix.py); seeds without a run are left out."""
import json, os, re
ROOT = os.path.dirname(os.path.dirname(os.path.abspath(__file__)))
rows = json.load(open(f"{ROOT}/seeded/DETECTION.json"))
def cell(s, n):
    return re.sub(r"\s+", " ", str(s or "")).replace("|", "/")[:n]
out = ["| seed | round | what it needs in order to manifest (abridged) | how the own check reports it | first message (abridged) |", "|---|---|---|---|---|"]
n = miss = 0
for r in rows:
    meta = json.load(open(f"{ROOT}/seeded/{r['id']}/meta.json"))
    if meta.get("superseded"):
        n += 1
        out.append(f"| {r['id']} | {r.get('round') or ''} | {cell(r.get('needs_to_manifest'), 110)} | superseded | harmless on the fixed tree (fix: 3b0010d, F4); was reported on the tree it was written for |")
        continue
    rep = r["reports"].get(r["property"])
    if not rep:
        continue
    n += 1
    if not rep.get("violation"):
        miss += 1
    out.append(f"| {r['id']} | {r.get('round') or ''} | {cell(r.get('needs_to_manifest'), 110)} | {rep.get('kind') or ('NOT REPORTED' if not rep.get('violation') else '')} | {cell(rep.get('first_message'), 100)} |")
s = open(f"{ROOT}/DESIGN.md").read()
a, b = s.index("<!-- DETECTION-TABLE-BEGIN -->"), s.index("<!-- DETECTION-TABLE-END -->")
s = s[:a] + "<!-- DETECTION-TABLE-BEGIN -->\n" + "\n".join(out) + "\n" + s[b:]
open(f"{ROOT}/DESIGN.md", "w").write(s)
print(f"{n} rows, {miss} not reported")
