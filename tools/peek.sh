#!/bin/bash
# peek.sh <file.v> <line> [n]: compile the first <line> lines of the file, then Show the goals
f=$1; n=$2; k=${3:-60}
d=$(mktemp -d)
head -n "$n" "$f" > $d/Peek.v
echo "Show." >> $d/Peek.v
cd /verif/coq && timeout 300 coqc -Q theories TSS -Q props TSSProps $d/Peek.v 2>&1 | grep -v "Attempt to save\|Peek.v" | head -n "$k"
rm -rf $d
