#!/usr/bin/env python3
"""tools/rebase_seeds.py FIXCOMMIT id...: a fix: commit in /repo touched a file that stored seeded changes touch too, so their
patch.diff no longer applies.  For each id: check out the parent of the fix in a scratch worktree, apply the stored patch, re-do
the fix's edit on top (textually, at the same place when the surroundings still exist, else at the start of the function), and
store the difference to /repo's HEAD as the new patch.diff (the old one is kept as patch.pre-<fix>.diff)."""
import os, re, shutil, subprocess, sys
fix, ids = sys.argv[1], sys.argv[2:]
BLOCK = '''        // A request whose target is not a path (`OPTIONS *`) matches no scope, so the default
        // headers above do not apply to it; answer it here, with the same header.
        cfg.default_service(web::to(|| async {
            HttpResponse::NotFound()
                .insert_header(("Cache-Control", "no-store, max-age=0"))
                .finish()
        }));
'''
def sh(cmd, **kw):
    return subprocess.run(cmd, shell=True, capture_output=True, text=True, **kw)
for sid in ids:
    wt = f"/tmp/seedrebase/{sid}"
    os.makedirs("/tmp/seedrebase", exist_ok=True)
    sh(f"git -C /repo worktree remove --force {wt}")
    assert sh(f"git -C /repo worktree add -q --detach {wt} {fix}~1").returncode == 0
    try:
        orig = f"/verif/seeded/{sid}/patch.pre-{fix}.diff"
        r = sh(f"git -C {wt} apply {orig if os.path.exists(orig) else f'/verif/seeded/{sid}/patch.diff'}")
        if r.returncode != 0:
            print(sid, "stored patch does not apply to the parent of the fix:", r.stderr[:200]); continue
        p = f"{wt}/server/src/lib.rs"
        s = open(p).read()
        if "cfg.default_service" in s:
            print(sid, "already has a default service: left alone"); continue
        tail = "                .service(index)\n                .service(api_scope()),\n        );\n"
        sig = "    pub fn config(&self, cfg: &mut web::ServiceConfig) {\n"
        if s.count(tail) == 1 and re.search(re.escape(tail) + r"    \}", s):
            s = s.replace(tail, tail + BLOCK)
            where = "same place"
        elif s.count(sig) == 1:
            s = s.replace(sig, sig + BLOCK)
            where = "start of config()"
        else:
            print(sid, "config() not found"); continue
        imported = re.search(r"use actix_web::\{[^;]*\bHttpResponse\b[^;]*\};", s, re.S) or re.search(r"use actix_web::(\w+::)*HttpResponse\b", s)
        if not imported:
            if "use actix_web::{get, middleware, web, Responder};" in s:
                s = s.replace("use actix_web::{get, middleware, web, Responder};", "use actix_web::{get, middleware, web, HttpResponse, Responder};")
            else:
                first = [l for l in s.split("\n") if l.startswith("use actix_web")][0]
                s = s.replace(first, "use actix_web::HttpResponse;\n" + first, 1)
        open(p, "w").write(s)
        # the new patch: difference between /repo HEAD and this tree
        sh(f"git -C {wt} add -A && git -C {wt} commit -q -m seed")
        d = sh(f"git -C {wt} diff HEAD~0 --stat")
        diff = sh(f"git -C /repo diff HEAD {sh(f'git -C {wt} rev-parse HEAD').stdout.strip()} -- . ':(exclude)out'").stdout
        if not diff.strip():
            print(sid, "empty diff"); continue
        old = f"/verif/seeded/{sid}/patch.pre-{fix}.diff"
        if not os.path.exists(old):
            shutil.copy(f"/verif/seeded/{sid}/patch.diff", old)
        open(f"/verif/seeded/{sid}/patch.diff", "w").write(diff)
        print(sid, "rebased (fix re-done at the", where + ")")
    finally:
        sh(f"git -C /repo worktree remove --force {wt}")
sh("git -C /repo worktree prune")
